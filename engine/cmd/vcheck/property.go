package main

import (
	"crypto/sha1"
	"encoding/hex"
	"encoding/json"
	"fmt"
	"go/ast"
	"go/parser"
	"go/token"
	"os"
	"path/filepath"
	"regexp"
	"runtime"
	"sort"
	"strings"
	"time"

	"symgo/interp"
)

type PropertySpec struct {
	ID         string        `json:"id"`
	Harnesses  []HarnessSpec `json:"harnesses"`
	Anchors    []string      `json:"anchors"` // function-name substrings that must have been entered
	Bounds     map[string]string `json:"bounds"`
	Assumptions []string     `json:"assumptions"`
	Outside    []string      `json:"outside"`
}

type Registry struct {
	Properties map[string]*PropertySpec `json:"properties"`
}

func loadRegistry() (*Registry, error) {
	var r Registry
	if err := readJSON(filepath.Join(harnessDir, "registry.json"), &r); err != nil {
		return nil, err
	}
	return &r, nil
}

type KnownFinding struct {
	Property string `json:"property"`
	Harness  string `json:"harness"`
	Label    string `json:"label"`
	Kind     string `json:"kind"`
	Match    string `json:"match"` // regexp on the native replay's detail/observations
	What     string `json:"what"`
}

type KnownFile struct {
	Known []KnownFinding `json:"known"`
	Fixed []string       `json:"fixed"`
}

func loadKnown() KnownFile {
	var k KnownFile
	readJSON(filepath.Join(verifRoot, "known-findings.json"), &k)
	return k
}

type ReplayFile struct {
	Property string            `json:"property"`
	Harness  string            `json:"harness"`
	Tier     int               `json:"tier"`
	Kind     string            `json:"kind"`
	Label    string            `json:"label"`
	Detail   string            `json:"detail"`
	Inputs   []interp.InputRec `json:"inputs"`
	Sched    []int             `json:"sched,omitempty"`
	Prefix   []int             `json:"prefix"`
	Second   []interp.InputRec `json:"second_inputs,omitempty"` // for record disagreements
	PrefixA  []int             `json:"first_prefix,omitempty"`  // for record disagreements: the other path
	Native   *nativeResult     `json:"native_result,omitempty"`
	SchedOnly bool             `json:"schedule_dependent,omitempty"`
	Spec     *HarnessSpec      `json:"spec,omitempty"`
	Input    string            `json:"input_description"`
}

// confirm replays a candidate violation natively.
func confirm(np *nativeProc, rf *ReplayFile) (bool, nativeResult) {
	r := np.run(nativeJob{ID: 1, Harness: rf.Harness, Tier: rf.Tier, Inputs: rf.Inputs, Timeout: 8000})
	ok := false
	switch rf.Kind {
	case "assert":
		for _, f := range r.Failed {
			if f == rf.Label {
				ok = true
			}
		}
		// an assertion the engine could not reach natively because the code
		// crashed earlier is still a reproduced failure of the run
		if r.Outcome == "panic" || r.Outcome == "crash" || r.Outcome == "timeout" {
			ok = true
		}
	case "panic", "exit":
		ok = r.Outcome == "panic" || r.Outcome == "crash"
	case "deadlock", "hang":
		ok = r.Outcome == "timeout"
	case "race":
		bin, err := buildNative("race", true)
		if err != nil {
			return false, nativeResult{Outcome: "engine-error", Detail: err.Error()}
		}
		for try := 0; try < 12 && !ok; try++ {
			hit, out := runRace(bin, nativeJob{ID: 1, Harness: rf.Harness, Tier: rf.Tier, Inputs: rf.Inputs, Timeout: 20000})
			ok = hit
			r = nativeResult{Outcome: "ok", Detail: clip(out, 1500)}
		}
	case "record":
		r2 := np.run(nativeJob{ID: 2, Harness: rf.Harness, Tier: rf.Tier, Inputs: rf.Second, Timeout: 8000})
		ok = recordsDiffer(r.Records, r2.Records, rf.Label)
	}
	return ok, r
}

func recordsDiffer(a, b []nativeObs, label string) bool {
	get := func(xs []nativeObs) (string, bool) {
		for _, x := range xs {
			if x.Label == label {
				return x.Val, true
			}
		}
		return "", false
	}
	va, oka := get(a)
	vb, okb := get(b)
	return oka && okb && va != vb
}

func matchKnown(k KnownFile, prop string, rf *ReplayFile, nr nativeResult) *KnownFinding {
	for i := range k.Known {
		kf := &k.Known[i]
		if kf.Property != prop {
			continue
		}
		if kf.Harness != "" && kf.Harness != rf.Harness {
			continue
		}
		if kf.Kind != "" && kf.Kind != rf.Kind {
			continue
		}
		if kf.Label != "" && kf.Label != rf.Label {
			continue
		}
		if kf.Match != "" {
			hay := nr.Detail + "\n" + rf.Detail + "\n" + rf.Input
			for _, o := range nr.Obs {
				hay += "\n" + o.Label + "=" + o.Val
			}
			re, err := regexp.Compile(kf.Match)
			if err != nil || !re.MatchString(hay) {
				continue
			}
		}
		return kf
	}
	return nil
}

func propertyMain(id string, args []string) int {
	t0 := time.Now()
	tierName := tierFromArgs(args)
	tier := 0
	if tierName == "thorough" {
		tier = 1
	}
	verbose := false
	for _, a := range args {
		if a == "-v" {
			verbose = true
		}
	}
	seed := envInt("VERIF_SEED", 0)
	reg, err := loadRegistry()
	if err != nil {
		say("ERROR: cannot load registry: %v", err)
		return 2
	}
	ps := reg.Properties[id]
	if ps == nil {
		say("ERROR: property %s has no registered check", id)
		return 2
	}
	var specs []HarnessSpec
	for _, h := range ps.Harnesses {
		if h.ThoroughOnly && tier == 0 {
			continue
		}
		specs = append(specs, h)
	}
	nw := envInt("SYMGO_WORKERS", runtime.NumCPU())
	if nw > 16 {
		nw = 16
	}
	say("property %s tier=%s workers=%d harnesses=%d", id, tierName, nw, len(specs))
	xdir := ""
	if os.Getenv("SYMGO_NO_XCHECK") == "" {
		xdir = filepath.Join(verifRoot, ".work", fmt.Sprintf("xcheck-%s-%d", id, os.Getpid()))
		os.RemoveAll(xdir)
		if os.MkdirAll(xdir, 0o755) == nil {
			os.Setenv("SYMGO_XCHECK_DIR", xdir)
			defer os.RemoveAll(xdir)
		} else {
			xdir = ""
		}
	}
	p, err := newPool(nw)
	if err != nil {
		say("%v", err)
		say("RESULT property=%s status=inconclusive reason=engine-load", id)
		writeFailEvidence(id, tierName, seed, time.Since(t0).Seconds(), err.Error())
		return 2
	}
	defer p.close()
	res := explore(p, specs, exploreCfg{tier: tier, verbose: verbose})
	p.close()

	bin, err := buildNative(id, false)
	if err != nil {
		say("%v", err)
		writeFailEvidence(id, tierName, seed, time.Since(t0).Seconds(), err.Error())
		return 2
	}
	np := &nativeProc{bin: bin}
	defer np.stop()

	known := loadKnown()
	exit := 0
	inconclusive := []string{}
	var xc *xcheckResult
	if xdir != "" {
		xc = crossCheck(xdir)
		say("cross-check: %d sampled unsat verdicts re-decided by %s: %d confirmed, %d unknown, %d errors, %d disagreements (%.1fs)",
			xc.Sampled, xc.Solver, xc.Confirmed, xc.Unknown, xc.Errors, xc.Disagree, xc.WallS)
		if xc.Disagree > 0 {
			inconclusive = append(inconclusive, fmt.Sprintf("SOLVER-DISAGREEMENT %d unsat verdicts are sat on the second solver, e.g. %s", xc.Disagree, xc.DisagreeAt[0]))
		}
		if xc.Errors > 0 {
			inconclusive = append(inconclusive, fmt.Sprintf("SOLVER-ERROR second solver printed an error on %d of %d scripts", xc.Errors, xc.Sampled))
		}
	}
	violations := 0
	knownMatched := []string{}
	validated := 0
	replayDir := filepath.Join(verifRoot, "replays", id)

	recSecond := map[string][]interp.InputRec{}
	recFirstPrefix := map[string][]int{}
	names := make([]string, 0, len(res))
	for n := range res {
		names = append(names, n)
	}
	sort.Strings(names)
	allFuncs := map[string]bool{}
	for _, name := range names {
		hr := res[name]
		for f := range hr.Funcs {
			allFuncs[f] = true
		}
		say("harness %s: paths=%d outcomes=%v forks=%d queries=%d solver=%.1fs obligations=%v", name, hr.Paths, hr.Outcomes, hr.Forks, hr.Queries, hr.SolverMs/1000, hr.Obligations)
		if len(hr.EngineErrs) > 0 {
			inconclusive = append(inconclusive, fmt.Sprintf("%s: ENGINE-ERROR %s", name, hr.EngineErrs[0]))
		}

		if hr.Truncated {
			why := "path limit reached"
			if hr.WallCap {
				why = "wall-clock cap reached"
			} else if len(hr.Violations) >= 64 {
				why = "stopped after 64 candidate violations"
			}
			inconclusive = append(inconclusive, fmt.Sprintf("%s: %s, exploration incomplete", name, why))
		}
		if hr.Uncertain > 0 {
			inconclusive = append(inconclusive, fmt.Sprintf("%s: %d paths with solver unknown/timeouts/errors", name, hr.Uncertain))
		}
		if hr.Obligations["inconclusive"] > 0 {
			inconclusive = append(inconclusive, fmt.Sprintf("%s: %d obligations inconclusive", name, hr.Obligations["inconclusive"]))
		}
		if n := hr.Outcomes["out-of-model"]; n > 0 {
			inconclusive = append(inconclusive, fmt.Sprintf("%s: %d paths left the model", name, n))
		}
		for _, l := range hr.Spec.Reach {
			if hr.Reached[l] == 0 {
				inconclusive = append(inconclusive, fmt.Sprintf("%s: VACUOUS reach label %q never reached", name, l))
			}
		}
		// cross-path records must agree
		for label, vals := range hr.Records {
			if len(vals) > 1 {
				var vs []string
				for v := range vals {
					vs = append(vs, v)
				}
				sort.Strings(vs)
				a, b := vals[vs[0]], vals[vs[1]]
				hr.Violations = append(hr.Violations, violationRec{name, interp.Violation{Label: label, Kind: "record",
					Detail: fmt.Sprintf("paths disagree on %q: %s vs %s", label, clip(vs[0], 200), clip(vs[1], 200)), Inputs: a.Inputs, Prefix: b.Prefix}})
				recSecond[name+"|"+label] = b.Inputs
				recFirstPrefix[name+"|"+label] = a.Prefix
			}
		}
		// witness validation (translator validation per path)
		for _, w := range hr.Witnesses {
			nr := np.run(nativeJob{ID: 0, Harness: w.Harness, Tier: tier, Inputs: w.Inputs, Timeout: 8000})
			if nr.Outcome != "ok" {
				inconclusive = append(inconclusive, fmt.Sprintf("%s: ENGINE-MISMATCH engine path returned normally, native run: %s %s (input %s)", name, nr.Outcome, firstLine(nr.Detail), describeInputs(w.Inputs)))
				continue
			}
			if len(nr.Failed) > 0 {
				inconclusive = append(inconclusive, fmt.Sprintf("%s: ENGINE-MISMATCH native run fails assertion %v the engine discharged (input %s)", name, nr.Failed, describeInputs(w.Inputs)))
				continue
			}
			if ok, why := obsEqual(w.Obs, nr.Obs); !ok {
				inconclusive = append(inconclusive, fmt.Sprintf("%s: ENGINE-MISMATCH %s (input %s)", name, why, describeInputs(w.Inputs)))
				continue
			}
			validated++
		}
		// candidate violations
		seen := map[string]bool{}
		twinHit := false
		hangConfirmed := false
		for _, v := range hr.Violations {
			key := v.V.Kind + "|" + v.V.Label
			if hr.Spec.Twin {
				twinHit = true
				continue
			}
			if seen[key] && len(seen) > 0 {
				// one replay per (kind,label) per harness is enough to report;
				// further ones are still counted
				continue
			}
			rf := &ReplayFile{Property: id, Harness: v.Harness, Tier: tier, Kind: v.V.Kind, Label: v.V.Label,
				Detail: v.V.Detail, Inputs: v.V.Inputs, Sched: v.V.Sched, Prefix: v.V.Prefix, Input: describeInputs(v.V.Inputs)}
			if v.V.Kind == "record" {
				rf.Second = recSecond[name+"|"+v.V.Label]
				rf.PrefixA = recFirstPrefix[name+"|"+v.V.Label]
			}
			if hr.Spec.NoNative {
				// schedule-dependent: report the engine's counterexample directly
				seen[key] = true
				if kf := matchKnown(known, id, rf, nativeResult{}); kf != nil {
					say("KNOWN-FINDING: property=%s %s", id, kf.What)
					knownMatched = append(knownMatched, kf.What)
					continue
				}
				path := saveReplay(replayDir, rf)
				say("VIOLATION property=%s replay=%s", id, path)
				say("  %s/%s: %s [%s]", v.Harness, v.V.Label, firstLine(v.V.Detail), rf.Input)
				violations++
				exit = 1
				continue
			}
			ok, nr := confirm(np, rf)
			if v.V.Kind == "hang" {
				if !ok {
					continue // stays an UNWIND-EXCEEDED inconclusive below
				}
				hangConfirmed = true
			}
			if !ok && (hr.Spec.Sched || hr.Spec.MapOrder || (v.V.Kind == "race" && nr.Outcome == "ok")) {
				// the counterexample needs a particular goroutine schedule: the
				// native run (one arbitrary schedule) did not hit it. It is
				// reported from the engine's schedule, which replays by
				// re-executing the recorded decision prefix on the current SSA.
				rf.SchedOnly = true
				rf.Spec = &hr.Spec
				seen[key] = true
				if kf := matchKnown(known, id, rf, nr); kf != nil {
					say("KNOWN-FINDING: property=%s %s", id, kf.What)
					knownMatched = append(knownMatched, kf.What)
					continue
				}
				path := saveReplay(replayDir, rf)
				say("VIOLATION property=%s replay=%s", id, path)
				say("  %s/%s (schedule-dependent): %s [%s]", v.Harness, v.V.Label, firstLine(v.V.Detail), rf.Input)
				violations++
				exit = 1
				continue
			}
			if !ok {
				inconclusive = append(inconclusive, fmt.Sprintf("%s: ENGINE-MISMATCH candidate %s %q not reproduced natively (native: %s; input %s)", name, v.V.Kind, v.V.Label, nr.Outcome, rf.Input))
				continue
			}
			seen[key] = true
			rf.Native = &nr
			if hr.Spec.Sched || hr.Spec.MapOrder {
				// replay deterministically in the engine: the native run only
				// reproduces it when the runtime happens to pick the order
				rf.SchedOnly = true
				rf.Spec = &hr.Spec
			}
			if kf := matchKnown(known, id, rf, nr); kf != nil {
				say("KNOWN-FINDING: property=%s %s", id, kf.What)
				knownMatched = append(knownMatched, kf.What)
				continue
			}
			path := saveReplay(replayDir, rf)
			say("VIOLATION property=%s replay=%s", id, path)
			say("  %s/%s: %s [%s] native: %s %s", v.Harness, v.V.Label, firstLine(v.V.Detail), rf.Input, nr.Outcome, firstLine(nr.Detail))
			violations++
			exit = 1
		}
		if len(hr.Budget) > 0 && !hangConfirmed {
			inconclusive = append(inconclusive, fmt.Sprintf("%s: UNWIND-EXCEEDED %s", name, hr.Budget[0]))
		}
		if hr.Spec.Twin && !twinHit {
			inconclusive = append(inconclusive, fmt.Sprintf("%s: VACUOUS the reachability twin did not report its violation", name))
		}
	}
	// anchors
	for _, a := range ps.Anchors {
		found := false
		for f := range allFuncs {
			if strings.Contains(f, a) {
				found = true
				break
			}
		}
		if !found {
			// an anchor names a function of the tree the checks were written
			// against. After a refactoring the function may be gone or its
			// closures renumbered: that alone says nothing about the property,
			// so an anchor whose function is no longer declared is skipped, and a
			// closure anchor is satisfied by its enclosing function.
			base := anchorBase(a)
			if !declaredFuncs()[base] {
				say("NOTE: anchor function %q is not declared in the current source: skipped", a)
				continue
			}
			if strings.Contains(a, "$") {
				for f := range allFuncs {
					if strings.Contains(f, strings.SplitN(a, "$", 2)[0]) {
						found = true
						break
					}
				}
				if found {
					continue
				}
			}
			inconclusive = append(inconclusive, fmt.Sprintf("VACUOUS anchor function %q was never entered", a))
		}
	}
	for _, s := range inconclusive {
		say("INCONCLUSIVE: %s", s)
	}
	if exit == 0 && len(inconclusive) > 0 {
		exit = 2
	}
	writeEvidence(id, tierName, seed, ps, res, names, validated, violations, inconclusive, knownMatched, time.Since(t0).Seconds(), xc)
	status := map[int]string{0: "held", 1: "violated", 2: "inconclusive"}[exit]
	say("RESULT property=%s status=%s wall=%.1fs", id, status, time.Since(t0).Seconds())
	return exit
}

func clip(s string, n int) string {
	if len(s) > n {
		return s[:n]
	}
	return s
}

func firstLine(s string) string {
	if i := strings.IndexByte(s, '\n'); i >= 0 {
		return s[:i]
	}
	return s
}

func saveReplay(dir string, rf *ReplayFile) string {
	b, _ := json.Marshal(rf.Inputs)
	h := sha1.Sum(append([]byte(rf.Harness+rf.Kind+rf.Label), b...))
	path := filepath.Join(dir, fmt.Sprintf("%s-%s.json", rf.Harness, hex.EncodeToString(h[:5])))
	writeJSON(path, rf)
	return path
}

func replayMain(path string) int {
	var rf ReplayFile
	if err := readJSON(path, &rf); err != nil {
		say("cannot read replay file: %v", err)
		return 2
	}
	if rf.SchedOnly && rf.Spec != nil {
		// re-execute the recorded decision prefix (inputs + schedule) on the SSA
		// of the current tree
		p, err := newPool(1)
		if err != nil {
			say("%v", err)
			return 2
		}
		defer p.close()
		opts := interp.PathOpts{Budget: rf.Spec.Budget, SchedExplore: true, PreemptBudget: 1 << 20,
			SchedFilter: rf.Spec.SchedFilter, MapOrderExplore: rf.Spec.MapOrder, LogEvents: rf.Spec.LogEvents}
		r, err := p.workers[0].run(Job{ID: 1, Harness: rf.Harness, Prefix: rf.Prefix, Opts: opts, Tier: rf.Tier})
		if err != nil || r.Res == nil {
			say("replay failed: %v %s", err, r.Err)
			return 2
		}
		say("replay %s: harness=%s kind=%s label=%s input=[%s] (schedule-dependent, re-executed in the engine)", path, rf.Harness, rf.Kind, rf.Label, rf.Input)
		say("engine outcome: %s %s", r.Res.Outcome, firstLine(r.Res.Detail))
		hit := r.Res.Outcome == rf.Kind
		if rf.Kind == "record" {
			// re-execute the other path too: the two recorded values must differ
			ra, err := p.workers[0].run(Job{ID: 2, Harness: rf.Harness, Prefix: rf.PrefixA, Opts: opts, Tier: rf.Tier})
			hit = false
			if err == nil && ra.Res != nil {
				get := func(rs []interp.Observation) (string, bool) {
					for _, rec := range rs {
						if rec.Label == rf.Label {
							return rec.Val, true
						}
					}
					return "", false
				}
				va, oka := get(ra.Res.Records)
				vb, okb := get(r.Res.Records)
				say("recorded values: %s | %s", clip(va, 120), clip(vb, 120))
				hit = oka && okb && va != vb
			}
		}
		for _, v := range r.Res.Violations {
			if v.Label == rf.Label {
				hit = true
			}
		}
		if hit {
			say("VIOLATION property=%s replay=%s", rf.Property, path)
			return 1
		}
		say("not reproduced")
		return 0
	}
	bin, err := buildNative("replay", false)
	if err != nil {
		say("%v", err)
		return 2
	}
	np := &nativeProc{bin: bin}
	defer np.stop()
	ok, nr := confirm(np, &rf)
	say("replay %s: harness=%s kind=%s label=%s input=[%s]", path, rf.Harness, rf.Kind, rf.Label, rf.Input)
	say("native outcome: %s failed=%v %s", nr.Outcome, nr.Failed, firstLine(nr.Detail))
	for _, o := range nr.Obs {
		say("  observed %s = %s", o.Label, o.Val)
	}
	if ok {
		say("VIOLATION property=%s replay=%s", rf.Property, path)
		return 1
	}
	say("not reproduced")
	return 0
}

func harnessMain(args []string) int {
	if len(args) == 0 {
		usage()
	}
	spec := HarnessSpec{Func: args[0]}
	cfg := exploreCfg{tier: 0}
	if tierFromArgs(args) == "thorough" {
		cfg.tier = 1
	}
	native := false
	for i, a := range args {
		switch a {
		case "-v":
			cfg.verbose = true
		case "--sched":
			spec.Sched = true
			spec.Preempt = [2]int{2, 3}
			spec.NoNative = true
		case "--filter":
			spec.SchedFilter = args[i+1]
		case "--preempt":
			fmt.Sscanf(args[i+1], "%d", &spec.Preempt[0])
			spec.Preempt[1] = spec.Preempt[0]
		case "--maporder":
			spec.MapOrder = true
		case "--events":
			spec.LogEvents = true
		case "--native":
			native = true
		case "--max":
			fmt.Sscanf(args[i+1], "%d", &spec.MaxPaths[0])
			spec.MaxPaths[1] = spec.MaxPaths[0]
		case "--budget":
			fmt.Sscanf(args[i+1], "%d", &spec.Budget)
		}
	}
	nw := envInt("SYMGO_WORKERS", runtime.NumCPU())
	p, err := newPool(nw)
	if err != nil {
		say("%v", err)
		return 2
	}
	defer p.close()
	t0 := time.Now()
	res := explore(p, []HarnessSpec{spec}, cfg)
	hr := res[spec.Func]
	say("paths=%d outcomes=%v forks=%d queries=%d solver=%.2fs instrs=%d wall=%.1fs depth=%d", hr.Paths, hr.Outcomes, hr.Forks, hr.Queries, hr.SolverMs/1000, hr.Instrs, time.Since(t0).Seconds(), hr.MaxDepth)
	say("obligations=%v", hr.Obligations)
	for l, m := range hr.OblLabels {
		say("  %-40s %v", l, m)
	}
	say("reached=%v", hr.Reached)
	say("out_of_model=%v uncertain=%d", hr.OutOfModel, hr.Uncertain)
	for _, e := range hr.EngineErrs {
		say("ENGINE-ERROR %s", e)
	}
	for _, e := range hr.Budget {
		say("BUDGET %s", e)
	}
	for g := range hr.GlobalWrites {
		say("GLOBAL-WRITE %s", g)
	}
	seen := map[string]int{}
	for _, v := range hr.Violations {
		k := v.V.Kind + "|" + v.V.Label + "|" + firstLine(v.V.Detail)
		seen[k]++
		if seen[k] <= 3 {
			say("CANDIDATE %s %q: %s  input[%s]", v.V.Kind, v.V.Label, firstLine(v.V.Detail), describeInputs(v.V.Inputs))
		}
	}
	for k, n := range seen {
		if n > 3 {
			say("  (%d candidates of %s)", n, k)
		}
	}
	for label, vals := range hr.Records {
		if len(vals) > 1 {
			say("RECORD-DISAGREEMENT %s: %d different values", label, len(vals))
			n := 0
			for v := range vals {
				if n < 3 {
					say("   %s", firstLine(v))
				}
				n++
			}
		}
	}
	for _, s := range hr.Samples {
		say("SAMPLE %v -> %s input[%s] obs=%v", s.Prefix, s.Outcome, describeInputs(s.Witness), s.Obs)
	}
	if native {
		bin, err := buildNative("dbg", false)
		if err != nil {
			say("%v", err)
			return 2
		}
		np := &nativeProc{bin: bin}
		defer np.stop()
		okc := 0
		for _, w := range hr.Witnesses {
			nr := np.run(nativeJob{Harness: w.Harness, Tier: cfg.tier, Inputs: w.Inputs, Timeout: 8000})
			if ok, why := obsEqual(w.Obs, nr.Obs); !ok || nr.Outcome != "ok" || len(nr.Failed) > 0 {
				say("MISMATCH %s native=%s failed=%v %s input[%s]", why, nr.Outcome, nr.Failed, firstLine(nr.Detail), describeInputs(w.Inputs))
			} else {
				okc++
			}
		}
		say("validated %d/%d witnesses natively", okc, len(hr.Witnesses))
		done := map[string]bool{}
		for _, v := range hr.Violations {
			k := v.V.Kind + "|" + v.V.Label
			if done[k] {
				continue
			}
			done[k] = true
			rf := &ReplayFile{Harness: v.Harness, Tier: cfg.tier, Kind: v.V.Kind, Label: v.V.Label, Inputs: v.V.Inputs}
			ok, nr := confirm(np, rf)
			say("CONFIRM %s %q: reproduced=%v native=%s %s", v.V.Kind, v.V.Label, ok, nr.Outcome, firstLine(nr.Detail))
		}
	}
	return 0
}

func selftestMain(args []string) int {
	say("selftest: not implemented yet")
	return 0
}

var _ = os.Getenv

// anchorBase returns the function or method identifier an anchor refers to.
func anchorBase(a string) string {
	a = strings.SplitN(a, "$", 2)[0]
	i := len(a)
	for i > 0 {
		c := a[i-1]
		if c == '_' || c >= '0' && c <= '9' || c >= 'a' && c <= 'z' || c >= 'A' && c <= 'Z' {
			i--
			continue
		}
		break
	}
	return a[i:]
}

var declaredFuncsCache map[string]bool

// declaredFuncs lists the functions and methods declared in the repository's
// non-test Go files (library and command).
func declaredFuncs() map[string]bool {
	if declaredFuncsCache != nil {
		return declaredFuncsCache
	}
	out := map[string]bool{}
	fset := token.NewFileSet()
	for _, dir := range []string{repoDir, filepath.Join(repoDir, "cmd", "bcl")} {
		pkgs, err := parser.ParseDir(fset, dir, func(fi os.FileInfo) bool { return !strings.HasSuffix(fi.Name(), "_test.go") }, 0)
		if err != nil {
			continue
		}
		for _, p := range pkgs {
			for _, f := range p.Files {
				for _, d := range f.Decls {
					if fd, ok := d.(*ast.FuncDecl); ok {
						out[fd.Name.Name] = true
					}
				}
			}
		}
	}
	declaredFuncsCache = out
	return out
}
