package main

import (
	"bufio"
	"bytes"
	"encoding/json"
	"fmt"
	"go/ast"
	"go/parser"
	"go/token"
	"io"
	"os"
	"os/exec"
	"path/filepath"
	"sort"
	"strings"
	"time"

	"symgo/interp"
)

type nativeJob struct {
	ID      int               `json:"id"`
	Harness string            `json:"harness"`
	Tier    int               `json:"tier"`
	Inputs  []interp.InputRec `json:"inputs"`
	Timeout int               `json:"timeout_ms"`
}

type nativeObs struct {
	Label string `json:"label"`
	Val   string `json:"val"`
}

type nativeResult struct {
	ID      int         `json:"id"`
	Outcome string      `json:"outcome"`
	Detail  string      `json:"detail,omitempty"`
	Obs     []nativeObs `json:"obs"`
	Records []nativeObs `json:"records"`
	Reached []string    `json:"reached"`
	Failed  []string    `json:"failed"`
}

// harnessFuncs lists the exported niladic functions of the props package.
func harnessFuncs() ([]string, error) {
	fset := token.NewFileSet()
	pkgs, err := parser.ParseDir(fset, filepath.Join(harnessDir, "props"), nil, 0)
	if err != nil {
		return nil, err
	}
	var names []string
	for _, p := range pkgs {
		for _, f := range p.Files {
			for _, d := range f.Decls {
				fd, ok := d.(*ast.FuncDecl)
				if !ok || fd.Recv != nil || !fd.Name.IsExported() {
					continue
				}
				if fd.Type.Params.NumFields() != 0 || fd.Type.Results.NumFields() != 0 {
					continue
				}
				if fd.Type.TypeParams != nil {
					continue
				}
				names = append(names, fd.Name.Name)
			}
		}
	}
	sort.Strings(names)
	return names, nil
}

// buildNative compiles the native replay binary against /repo's working tree.
func buildNative(tag string, race bool) (string, error) {
	syncGoSum()
	os.MkdirAll(workDir, 0o755)
	names, err := harnessFuncs()
	if err != nil {
		return "", err
	}
	var reg bytes.Buffer
	reg.WriteString("package main\n\nimport \"verifharness/props\"\n\nvar registry = map[string]func(){\n")
	for _, n := range names {
		fmt.Fprintf(&reg, "\t%q: props.%s,\n", n, n)
	}
	reg.WriteString("}\n")
	regFile := filepath.Join(workDir, "zz_registry_"+tag+".go")
	if err := os.WriteFile(regFile, reg.Bytes(), 0o644); err != nil {
		return "", err
	}
	replace := map[string]string{
		filepath.Join(harnessDir, "cmd/native/zz_registry.go"): regFile,
	}
	for virt, real := range overlayFiles() {
		if _, err := os.Stat(real); err == nil {
			replace[virt] = real
		}
	}
	ovFile := filepath.Join(workDir, "overlay_"+tag+".json")
	if err := writeJSON(ovFile, map[string]interface{}{"Replace": replace}); err != nil {
		return "", err
	}
	bin := filepath.Join(workDir, "native_"+tag)
	args := []string{"build", "-overlay", ovFile, "-o", bin}
	if race {
		args = append(args, "-race")
	}
	args = append(args, "./cmd/native")
	cmd := exec.Command("go", args...)
	cmd.Dir = harnessDir
	cmd.Env = goEnv()
	if race {
		cmd.Env = append(cmd.Env, "CGO_ENABLED=1")
	}
	out, err := cmd.CombinedOutput()
	if err != nil {
		return "", fmt.Errorf("HARNESS-INCOMPATIBLE: native harness build failed: %v\n%s", err, out)
	}
	// the command-line tool itself, for harnesses that run it (C18)
	cli := filepath.Join(workDir, "bcl_"+tag)
	cmd = exec.Command("go", "build", "-o", cli, "./cmd/bcl")
	cmd.Dir = repoDir
	cmd.Env = goEnv()
	if out, err := cmd.CombinedOutput(); err != nil {
		return "", fmt.Errorf("HARNESS-INCOMPATIBLE: building cmd/bcl failed: %v\n%s", err, out)
	}
	os.Setenv("VERIF_BCL_BIN", cli)
	return bin, nil
}

type nativeProc struct {
	bin    string
	cmd    *exec.Cmd
	in     *bufio.Writer
	dec    *json.Decoder
	stderr *bytes.Buffer
	pipe   io.WriteCloser
}

func (n *nativeProc) start() error {
	n.cmd = exec.Command(n.bin)
	n.cmd.Env = os.Environ()
	n.stderr = &bytes.Buffer{}
	n.cmd.Stderr = n.stderr
	stdin, err := n.cmd.StdinPipe()
	if err != nil {
		return err
	}
	stdout, err := n.cmd.StdoutPipe()
	if err != nil {
		return err
	}
	if err := n.cmd.Start(); err != nil {
		return err
	}
	n.in = bufio.NewWriter(stdin)
	n.pipe = stdin
	n.dec = json.NewDecoder(bufio.NewReaderSize(stdout, 1<<20))
	return nil
}

func (n *nativeProc) stop() {
	if n.cmd != nil && n.cmd.Process != nil {
		n.cmd.Process.Kill()
		n.cmd.Wait()
		n.cmd = nil
	}
}

// run executes one job; a dying process is reported as outcome "crash".
func (n *nativeProc) run(j nativeJob) nativeResult {
	if n.cmd == nil {
		if err := n.start(); err != nil {
			return nativeResult{ID: j.ID, Outcome: "engine-error", Detail: err.Error()}
		}
	}
	b, _ := json.Marshal(j)
	n.in.Write(b)
	n.in.WriteByte('\n')
	n.in.Flush()
	type res struct {
		r   nativeResult
		err error
	}
	ch := make(chan res, 1)
	go func() {
		var r nativeResult
		err := n.dec.Decode(&r)
		ch <- res{r, err}
	}()
	to := time.Duration(j.Timeout+5000) * time.Millisecond
	select {
	case x := <-ch:
		if x.err != nil {
			// the process died, or its output is not a result: make sure it is
			// gone (it may still be alive, waiting for the next job)
			n.cmd.Process.Kill()
			n.cmd.Wait()
			tail := n.stderr.String()
			if len(tail) > 1500 {
				tail = tail[:1500]
			}
			n.cmd = nil
			return nativeResult{ID: j.ID, Outcome: "crash", Detail: tail}
		}
		if x.r.Outcome == "timeout" {
			n.cmd.Wait()
			n.cmd = nil
		}
		return x.r
	case <-time.After(to):
		n.stop()
		return nativeResult{ID: j.ID, Outcome: "timeout", Detail: "native process unresponsive"}
	}
}

func obsEqual(a []interp.Observation, b []nativeObs) (bool, string) {
	if len(a) != len(b) {
		return false, fmt.Sprintf("engine has %d observations, native %d", len(a), len(b))
	}
	for i := range a {
		if a[i].Label != b[i].Label || a[i].Val != b[i].Val {
			// formatted symbolic values are rendered as '?' by the engine
			if a[i].Label == b[i].Label && strings.Contains(a[i].Val, "?") {
				continue
			}
			return false, fmt.Sprintf("observation %q: engine %s, native %s", a[i].Label, a[i].Val, b[i].Val)
		}
	}
	return true, ""
}

// runRace runs one job in a -race build and reports whether the Go race
// detector printed a report mentioning the package under test.
func runRace(bin string, j nativeJob) (bool, string) {
	n := &nativeProc{bin: bin}
	r := n.run(j)
	_ = r
	// let the process exit so that all reports are flushed
	if n.cmd != nil {
		n.in.Flush()
		if n.pipe != nil {
			n.pipe.Close()
		}
		done := make(chan struct{})
		go func() { n.cmd.Wait(); close(done) }()
		select {
		case <-done:
		case <-time.After(5 * time.Second):
			n.cmd.Process.Kill()
			<-done
		}
	}
	out := ""
	if n.stderr != nil {
		out = n.stderr.String()
	}
	return strings.Contains(out, "DATA RACE") && strings.Contains(out, "github.com/wkhere/bcl"), out
}
