// Command vcheck drives the symbolic engine: it explores all paths of the
// harness functions registered for a property, discharges their obligations
// with the solver, replays candidate violations natively and writes evidence.
package main

import (
	"bufio"
	"encoding/json"
	"fmt"
	"os"
	"path/filepath"
	"strings"
)

const harnessPkg = "verifharness/props"

// The repository under test: /repo, or $VERIF_REPO (a scratch copy with a
// seeded change, so that /repo itself is never touched).
var repoDir = func() string {
	if r := os.Getenv("VERIF_REPO"); r != "" {
		return r
	}
	return "/repo"
}()

// The root of the verification tree: $VERIF_ROOT, else the directory above
// the executable's bin/ (so a snapshot of /verif built elsewhere is
// self-contained), else /verif.
var (
	verifRoot  = findRoot()
	harnessDir = filepath.Join(verifRoot, "harness")
	workDir    = filepath.Join(verifRoot, ".work")
)

func findRoot() string {
	if r := os.Getenv("VERIF_ROOT"); r != "" {
		return r
	}
	if exe, err := os.Executable(); err == nil {
		if exe, err = filepath.EvalSymlinks(exe); err == nil {
			root := filepath.Dir(filepath.Dir(exe))
			if _, err := os.Stat(filepath.Join(root, "harness", "registry.json")); err == nil {
				return root
			}
		}
	}
	return "/verif"
}

func usage() {
	fmt.Fprintln(os.Stderr, `usage:
  vcheck <PROPERTY-ID> [--tier quick|thorough]   run the checks of a property
  vcheck replay <replay.json>                   replay a recorded violation natively
  vcheck harness <Func> [--tier t] [--concrete] [--sched] [--maporder] [--max N] [-v]   explore one harness (debug)
  vcheck selftest                               engine self tests (translator validation on the repo's own tests)
  vcheck --worker                               (internal)`)
	os.Exit(2)
}

func main() {
	if len(os.Args) < 2 {
		usage()
	}
	switch os.Args[1] {
	case "--worker":
		workerMain()
	case "replay":
		if len(os.Args) < 3 {
			usage()
		}
		os.Exit(replayMain(os.Args[2]))
	case "harness":
		os.Exit(harnessMain(os.Args[2:]))
	case "selftest":
		os.Exit(selftestMain(os.Args[2:]))
	default:
		os.Exit(propertyMain(os.Args[1], os.Args[2:]))
	}
}

func tierFromArgs(args []string) string {
	tier := os.Getenv("VERIF_TIER")
	for i, a := range args {
		if a == "--tier" && i+1 < len(args) {
			tier = args[i+1]
		}
		if strings.HasPrefix(a, "--tier=") {
			tier = strings.TrimPrefix(a, "--tier=")
		}
	}
	if tier != "thorough" {
		tier = "quick"
	}
	return tier
}

func writeJSON(path string, v interface{}) error {
	os.MkdirAll(filepath.Dir(path), 0o755)
	b, err := json.MarshalIndent(v, "", " ")
	if err != nil {
		return err
	}
	return os.WriteFile(path, append(b, '\n'), 0o644)
}

func readJSON(path string, v interface{}) error {
	b, err := os.ReadFile(path)
	if err != nil {
		return err
	}
	return json.Unmarshal(b, v)
}

var stdout = bufio.NewWriter(os.Stdout)

func say(format string, args ...interface{}) {
	fmt.Fprintf(stdout, format+"\n", args...)
	stdout.Flush()
}
