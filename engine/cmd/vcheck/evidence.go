package main

import (
	"os"
	"os/exec"
	"path/filepath"
	"sort"
	"strings"
)

type evidence struct {
	PropertyID  string                 `json:"property_id"`
	Tier        string                 `json:"tier"`
	Seed        int                    `json:"seed"`
	Level       string                 `json:"level"`
	Coverage    map[string]interface{} `json:"coverage"`
	Assumptions []string               `json:"assumptions"`
	WallS       float64                `json:"wall_s"`
	Violations  int                    `json:"violations"`
}

func evidencePath(id string) string {
	return filepath.Join(verifRoot, "evidence", id+".json")
}

func writeFailEvidence(id, tier string, seed int, wall float64, why string) {
	ev := evidence{PropertyID: id, Tier: tier, Seed: seed, Level: "other", WallS: wall,
		Coverage: map[string]interface{}{"explanation": "check did not run: " + why, "status": "inconclusive"}}
	writeJSON(evidencePath(id), ev)
}

func writeEvidence(id, tier string, seed int, ps *PropertySpec, res map[string]*harnessResult, names []string,
	validated, violations int, inconclusive, known []string, wall float64, xc *xcheckResult) {

	states, transitions, queries := 0, 0, 0
	solverS := 0.0
	obl := map[string]int{}
	funcs := map[string]bool{}
	intr := map[string]bool{}
	oom := map[string]int{}
	outcomes := map[string]int{}
	var samples []interface{}
	perHarness := map[string]interface{}{}
	unwind := 0
	var instrs int64
	assumes := 0
	for _, n := range names {
		hr := res[n]
		states += hr.Paths
		transitions += hr.Forks
		queries += hr.Queries
		solverS += hr.SolverMs / 1000
		instrs += hr.Instrs
		assumes += hr.Assumes
		for k, v := range hr.Obligations {
			obl[k] += v
		}
		for k := range hr.Funcs {
			funcs[k] = true
		}
		for k := range hr.Intrinsics {
			intr[k] = true
		}
		for k, v := range hr.OutOfModel {
			oom[k] += v
		}
		for k, v := range hr.Outcomes {
			outcomes[k] += v
		}
		unwind += len(hr.Budget)
		for _, s := range hr.Samples {
			if len(samples) < 8 {
				samples = append(samples, s)
			}
		}
		labels := map[string]interface{}{}
		for l, m := range hr.OblLabels {
			labels[l] = m
		}
		perHarness[n] = map[string]interface{}{
			"paths": hr.Paths, "outcomes": hr.Outcomes, "solver_decided_branches": hr.Forks,
			"queries": hr.Queries, "solver_time_s": hr.SolverMs / 1000, "obligations_by_label": labels,
			"reached": hr.Reached, "max_decision_depth": hr.MaxDepth, "schedule_exploration": hr.Spec.Sched,
			"map_order_exploration": hr.Spec.MapOrder, "note": hr.Spec.Note,
		}
	}
	if len(samples) == 0 {
		samples = append(samples, map[string]string{"note": "no completed path carried a witness"})
	}
	total := 0
	for _, v := range obl {
		total += v
	}
	cov := map[string]interface{}{
		"states":                        states,
		"transitions":                   transitions,
		"traces_validated_against_impl": validated,
		"samples":                       samples,
		"obligations":                   total,
		"discharged":                    obl["discharged"] + obl["trivial"],
		"discharged_by_solver":          obl["discharged"],
		"discharged_trivially":          obl["trivial"],
		"violated":                      obl["violated"],
		"inconclusive":                  obl["inconclusive"],
		"path_outcomes":                 outcomes,
		"queries":                       queries,
		"solver_time_s":                 solverS,
		"solvers":                       []string{solverVersion()},
		"instructions_interpreted":      instrs,
		"functions_encoded":             sortedKeys(funcs),
		"intrinsics_hit":                sortedKeys(intr),
		"out_of_model":                  oom,
		"unwind_exceeded":               unwind,
		"assume_calls":                  assumes,
		"bounds":                        ps.Bounds,
		"outside_the_claim":             ps.Outside,
		"harnesses":                     perHarness,
		"inconclusive_reasons":          inconclusive,
		"known_findings_matched":        known,
		"explanation":                   "bounded symbolic execution of the go/ssa form of /repo (regenerated this run); states = completed symbolic paths, transitions = solver-decided branch points, traces_validated = path witnesses re-run natively with equal observations",
	}
	if xc != nil {
		cov["unsat_cross_check"] = xc
		cov["solvers"] = []string{solverVersion(), xc.Solver}
	}
	ass := append([]string(nil), ps.Assumptions...)
	sort.Strings(ass)
	ev := evidence{PropertyID: id, Tier: tier, Seed: seed, Level: "model_checking", Coverage: cov,
		Assumptions: ass, WallS: wall, Violations: violations}
	writeJSON(evidencePath(id), ev)
}

func solverVersion() string {
	bin := "z3-new"
	if b := os.Getenv("SYMGO_SOLVER"); b != "" {
		bin = strings.Fields(b)[0]
	} else if _, err := exec.LookPath(bin); err != nil {
		bin = "z3"
	}
	out, err := exec.Command(bin, "--version").Output()
	if err != nil {
		return bin
	}
	return bin + ": " + strings.TrimSpace(string(out)) + " (-in, incremental push/pop)"
}
