package main

// Second-solver cross-check. The exploration trusts "unsat" answers of its
// primary solver (a branch side that is never explored, an obligation that is
// discharged); "sat" answers are validated by evaluating the model and by the
// native witness runs. A log-spaced sample of every worker's unsat verdicts,
// plus the slowest ones, is therefore written out as stand-alone SMT-LIB
// scripts and re-decided here by a different solver build (z3 4.8.12, one
// process per script, no incremental state). A script the second solver finds
// satisfiable makes the whole check inconclusive.

import (
	"bytes"
	"os"
	"os/exec"
	"path/filepath"
	"strings"
	"sync"
	"time"
)

type xcheckResult struct {
	Solver       string   `json:"second_solver"`
	Sampled      int      `json:"unsat_verdicts_sampled"`
	Confirmed    int      `json:"confirmed_unsat"`
	Unknown      int      `json:"unknown_or_timeout"`
	Errors       int      `json:"solver_errors"`
	Disagree     int      `json:"disagreements"`
	DisagreeAt   []string `json:"disagreeing_scripts,omitempty"`
	WallS        float64  `json:"wall_s"`
	PerHarness   map[string]int `json:"sampled_per_harness"`
}

func secondSolver() (string, []string) {
	if b := os.Getenv("SYMGO_SOLVER2"); b != "" {
		f := strings.Fields(b)
		return f[0], f[1:]
	}
	return "/usr/bin/z3", []string{"-T:60"}
}

func crossCheck(dir string) *xcheckResult {
	t0 := time.Now()
	bin, args := secondSolver()
	r := &xcheckResult{PerHarness: map[string]int{}}
	if out, err := exec.Command(bin, "--version").Output(); err == nil {
		r.Solver = bin + ": " + strings.TrimSpace(string(out)) + " (one process per script)"
	} else {
		r.Solver = bin + " (not runnable: " + err.Error() + ")"
		return r
	}
	files, _ := filepath.Glob(filepath.Join(dir, "*.smt2"))
	r.Sampled = len(files)
	var mu sync.Mutex
	var wg sync.WaitGroup
	sem := make(chan struct{}, 16)
	for _, f := range files {
		base := filepath.Base(f)
		if i := strings.LastIndex(base, "-"); i > 0 {
			if j := strings.LastIndex(base[:i], "-"); j > 0 {
				r.PerHarness[base[:j]]++
			}
		}
		wg.Add(1)
		sem <- struct{}{}
		go func(f string) {
			defer wg.Done()
			defer func() { <-sem }()
			out, _ := exec.Command(bin, append(append([]string{}, args...), f)...).CombinedOutput()
			verdict := ""
			hasErr := false
			for _, line := range bytes.Split(out, []byte("\n")) {
				l := strings.TrimSpace(string(line))
				if strings.HasPrefix(l, "(error") {
					hasErr = true
				}
				if l == "sat" || l == "unsat" || l == "unknown" || l == "timeout" {
					verdict = l
				}
			}
			mu.Lock()
			defer mu.Unlock()
			switch {
			case hasErr:
				r.Errors++
			case verdict == "unsat":
				r.Confirmed++
			case verdict == "sat":
				r.Disagree++
				keep := filepath.Join(verifRoot, ".work", "disagree-"+filepath.Base(f))
				os.Rename(f, keep)
				r.DisagreeAt = append(r.DisagreeAt, keep)
			default:
				r.Unknown++
			}
		}(f)
	}
	wg.Wait()
	r.WallS = time.Since(t0).Seconds()
	return r
}
