package main

import (
	"bufio"
	"encoding/json"
	"fmt"
	"io"
	"os"
	"os/exec"
	"runtime/pprof"
	"sync"
	"time"

	"symgo/interp"
)

// Job is one path to explore.
type Job struct {
	ID      int             `json:"id"`
	Harness string          `json:"harness"`
	Prefix  []int           `json:"prefix"`
	Opts    interp.PathOpts `json:"opts"`
	Tier    int             `json:"tier"`
	WantScript bool         `json:"want_script,omitempty"`
}

type JobResult struct {
	ID     int                `json:"id"`
	Res    *interp.PathResult `json:"res"`
	Script string             `json:"script,omitempty"`
	Err    string             `json:"err,omitempty"`
}

func workerMain() {
	if pf := os.Getenv("SYMGO_PROF"); pf != "" {
		f, _ := os.Create(fmt.Sprintf("%s.%d", pf, os.Getpid()))
		pprof.StartCPUProfile(f)
		defer pprof.StopCPUProfile()
	}
	out := bufio.NewWriterSize(os.Stdout, 1<<20)
	enc := json.NewEncoder(out)
	l, err := loadProgram(envInt("SYMGO_SOLVER_TIMEOUT_MS", 20000))
	if err != nil {
		enc.Encode(JobResult{ID: -1, Err: err.Error()})
		out.Flush()
		os.Exit(1)
	}
	enc.Encode(JobResult{ID: -1})
	out.Flush()
	dec := json.NewDecoder(bufio.NewReaderSize(os.Stdin, 1<<20))
	for {
		var j Job
		if err := dec.Decode(&j); err != nil {
			break
		}
		fn := l.harness.Func(j.Harness)
		var r JobResult
		r.ID = j.ID
		if fn == nil {
			r.Err = "no such harness function: " + j.Harness
		} else {
			interp.SetTier(j.Tier)
			l.machine.SetQueryTag(j.Harness)
			r.Res = l.machine.RunPath(fn, j.Prefix, j.Opts)
			if j.WantScript {
				r.Script = l.machine.Script()
			}
		}
		enc.Encode(r)
		out.Flush()
	}
	l.machine.Close()
}

func envInt(name string, def int) int {
	if s := os.Getenv(name); s != "" {
		var v int
		if _, err := fmt.Sscanf(s, "%d", &v); err == nil {
			return v
		}
	}
	return def
}

// ---- master side ----

type workerProc struct {
	cmd  *exec.Cmd
	enc  *json.Encoder
	dec  *json.Decoder
	in   *bufio.Writer
	pipe io.WriteCloser
	dead bool
}

func startWorker() (*workerProc, error) {
	self, err := os.Executable()
	if err != nil {
		return nil, err
	}
	cmd := exec.Command(self, "--worker")
	cmd.Stderr = os.Stderr
	cmd.Env = os.Environ()
	stdin, err := cmd.StdinPipe()
	if err != nil {
		return nil, err
	}
	stdout, err := cmd.StdoutPipe()
	if err != nil {
		return nil, err
	}
	if err := cmd.Start(); err != nil {
		return nil, err
	}
	w := &workerProc{cmd: cmd, pipe: stdin}
	w.in = bufio.NewWriter(stdin)
	w.enc = json.NewEncoder(w.in)
	w.dec = json.NewDecoder(bufio.NewReaderSize(stdout, 1<<20))
	var hello JobResult
	if err := w.dec.Decode(&hello); err != nil {
		return nil, fmt.Errorf("worker did not start: %v", err)
	}
	if hello.Err != "" {
		cmd.Wait()
		return nil, fmt.Errorf("%s", hello.Err)
	}
	return w, nil
}

func (w *workerProc) run(j Job) (JobResult, error) {
	if err := w.enc.Encode(j); err != nil {
		return JobResult{}, err
	}
	if err := w.in.Flush(); err != nil {
		return JobResult{}, err
	}
	var r JobResult
	if err := w.dec.Decode(&r); err != nil {
		w.dead = true
		return JobResult{}, fmt.Errorf("worker died: %v", err)
	}
	return r, nil
}

func (w *workerProc) stop() {
	if w.cmd != nil && w.cmd.Process != nil {
		if w.pipe != nil {
			w.pipe.Close()
		}
		done := make(chan struct{})
		go func() { w.cmd.Wait(); close(done) }()
		select {
		case <-done:
		case <-time.After(2 * time.Second):
			w.cmd.Process.Kill()
			<-done
		}
		w.cmd = nil
	}
}

// pool explores jobs with n worker processes.
type pool struct {
	n       int
	workers []*workerProc
	mu      sync.Mutex
}

func newPool(n int) (*pool, error) {
	syncGoSum()
	p := &pool{n: n}
	var wg sync.WaitGroup
	errs := make([]error, n)
	p.workers = make([]*workerProc, n)
	for i := 0; i < n; i++ {
		wg.Add(1)
		go func(i int) {
			defer wg.Done()
			p.workers[i], errs[i] = startWorker()
		}(i)
	}
	wg.Wait()
	for _, e := range errs {
		if e != nil {
			p.close()
			return nil, e
		}
	}
	return p, nil
}

func (p *pool) close() {
	var wg sync.WaitGroup
	for _, w := range p.workers {
		if w != nil {
			wg.Add(1)
			go func(w *workerProc) {
				defer wg.Done()
				w.stop()
			}(w)
		}
	}
	wg.Wait()
}
