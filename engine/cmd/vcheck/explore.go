package main

import (
	"fmt"
	"os"
	"sort"
	"strconv"
	"strings"
	"sync"
	"time"

	"symgo/interp"
)

// HarnessSpec is one registered harness of a property.
type HarnessSpec struct {
	Func      string   `json:"func"`
	Sched     bool     `json:"sched,omitempty"`
	Preempt   [2]int   `json:"preempt,omitempty"` // quick, thorough
	SchedFilter string `json:"sched_filter,omitempty"`
	MapOrder  bool     `json:"maporder,omitempty"`
	LogEvents bool     `json:"events,omitempty"`
	Budget    int64    `json:"budget,omitempty"`
	MaxPaths  [2]int   `json:"max_paths,omitempty"`
	Reach     []string `json:"reach,omitempty"`   // labels that must be reached on some path
	Validate  [2]int   `json:"validate,omitempty"` // witness validations (0 = default)
	Twin      bool     `json:"twin,omitempty"`     // vacuity twin: must report a violation
	ThoroughOnly bool  `json:"thorough_only,omitempty"`
	NoNative  bool     `json:"no_native,omitempty"` // violations cannot be replayed natively (schedules)
	Note      string   `json:"note,omitempty"`
}

type violationRec struct {
	Harness string
	V       interp.Violation
}

type harnessResult struct {
	Spec        HarnessSpec
	Paths       int
	Outcomes    map[string]int
	Forks       int
	Queries     int
	SolverMs    float64
	Instrs      int64
	Obligations map[string]int // by status
	OblLabels   map[string]map[string]int
	Violations  []violationRec
	Reached     map[string]int
	Funcs       map[string]bool
	Intrinsics  map[string]bool
	OutOfModel  map[string]int
	Uncertain   int
	Assumes     int
	Truncated   bool
	WallCap     bool
	EngineErrs  []string
	Budget      []string
	GlobalWrites map[string]bool
	Samples     []pathSample
	Witnesses   []witnessRec
	Records     map[string]map[string]recInfo // label -> value -> a witness
	Leaked      int
	WallS       float64
	MaxDepth    int
}

type recInfo struct {
	Inputs []interp.InputRec
	Prefix []int
}

type pathSample struct {
	Harness string            `json:"harness"`
	Prefix  []int             `json:"decision_prefix"`
	Outcome string            `json:"outcome"`
	Witness []interp.InputRec `json:"witness_input,omitempty"`
	Obs     []interp.Observation `json:"observed,omitempty"`
}

type witnessRec struct {
	Harness string
	Outcome string
	Detail  string
	Inputs  []interp.InputRec
	Obs     []interp.Observation
	Reached []string
}

func newHarnessResult(spec HarnessSpec) *harnessResult {
	return &harnessResult{Spec: spec, Outcomes: map[string]int{}, Obligations: map[string]int{},
		OblLabels: map[string]map[string]int{}, Reached: map[string]int{}, Funcs: map[string]bool{},
		Intrinsics: map[string]bool{}, OutOfModel: map[string]int{}, GlobalWrites: map[string]bool{},
		Records: map[string]map[string]recInfo{}}
}

type exploreCfg struct {
	tier     int
	verbose  bool
	concrete []interp.InputRec
	solverTimeoutMs int
}

// maxWall caps the exploration of one property run (all its harnesses share
// the pool): 25 minutes quick, 5 hours thorough, or $VERIF_MAX_WALL seconds.
// Hitting the cap makes the run inconclusive, never a pass.
func (c exploreCfg) maxWall() time.Duration {
	if v := os.Getenv("VERIF_MAX_WALL"); v != "" {
		if n, err := strconv.Atoi(v); err == nil && n > 0 {
			return time.Duration(n) * time.Second
		}
	}
	if c.tier == 1 {
		return 5 * time.Hour
	}
	return 25 * time.Minute
}

// explore runs all harness specs to completion on the pool.
func explore(p *pool, specs []HarnessSpec, cfg exploreCfg) map[string]*harnessResult {
	results := map[string]*harnessResult{}
	type qjob struct {
		spec   *HarnessSpec
		prefix []int
		model  map[string]uint64
	}
	var mu sync.Mutex
	cond := sync.NewCond(&mu)
	var queue []qjob
	inflight := 0
	started := map[string]int{}
	for i := range specs {
		s := &specs[i]
		results[s.Func] = newHarnessResult(*s)
		queue = append(queue, qjob{s, nil, nil})
	}
	t0 := time.Now()
	nextID := 0
	var wg sync.WaitGroup
	for _, w := range p.workers {
		wg.Add(1)
		go func(w *workerProc) {
			defer wg.Done()
			for {
				mu.Lock()
				for len(queue) == 0 && inflight > 0 {
					cond.Wait()
				}
				if len(queue) == 0 {
					mu.Unlock()
					cond.Broadcast()
					return
				}
				// depth-first: take the newest job (keeps the queue small)
				j := queue[len(queue)-1]
				queue = queue[:len(queue)-1]
				hr := results[j.spec.Func]
				maxp := j.spec.MaxPaths[cfg.tier]
				if maxp == 0 {
					maxp = 2_000_000
				}
				if started[j.spec.Func] >= maxp {
					hr.Truncated = true
					mu.Unlock()
					continue
				}
				if len(hr.Violations) >= 64 {
					// enough candidate violations to report: a change that breaks the
					// property can also blow up the path count (e.g. reading no longer
					// stops), and the verdict does not need the remaining paths
					hr.Truncated = true
					mu.Unlock()
					continue
				}
				if time.Since(t0) > cfg.maxWall() {
					hr.Truncated = true
					hr.WallCap = true
					mu.Unlock()
					continue
				}
				if len(hr.Budget) >= 24 {
					// many paths already ran out of budget (a hang in the code under
					// test): the candidates are kept, the rest is not explored
					hr.Truncated = true
					mu.Unlock()
					continue
				}
				started[j.spec.Func]++
				inflight++
				nextID++
				id := nextID
				mu.Unlock()

				opts := interp.PathOpts{
					Budget:          j.spec.Budget,
					SchedExplore:    j.spec.Sched,
					PreemptBudget:   j.spec.Preempt[cfg.tier],
					SchedFilter:     j.spec.SchedFilter,
					MapOrderExplore: j.spec.MapOrder,
					LogEvents:       j.spec.LogEvents,
					Concrete:        cfg.concrete,
					Model:           j.model,
				}
				if w.dead {
					nw, err := startWorker()
					if err != nil {
						mu.Lock()
						hr.EngineErrs = append(hr.EngineErrs, "cannot restart worker: "+err.Error())
						inflight--
						mu.Unlock()
						cond.Broadcast()
						return
					}
					*w = *nw
				}
				r, err := w.run(Job{ID: id, Harness: j.spec.Func, Prefix: j.prefix, Opts: opts, Tier: cfg.tier})
				mu.Lock()
				inflight--
				if err != nil || r.Err != "" || r.Res == nil {
					msg := r.Err
					if err != nil {
						msg = err.Error()
					}
					hr.EngineErrs = append(hr.EngineErrs, fmt.Sprintf("prefix %v: %s", j.prefix, msg))
				} else {
					for _, alt := range r.Res.Alternatives {
						queue = append(queue, qjob{j.spec, alt.Prefix, alt.Model})
					}
					hr.absorb(r.Res, cfg)
					if cfg.verbose {
						say("  path %s %v -> %s %s (forks %d, %d instr, %.0f ms wall, %.0f ms solver)", j.spec.Func, r.Res.Decisions, r.Res.Outcome, r.Res.Detail, r.Res.Forks, r.Res.Instrs, r.Res.WallMs, r.Res.SolverMs)
					}
				}
				mu.Unlock()
				cond.Broadcast()
			}
		}(w)
	}
	wg.Wait()
	for _, hr := range results {
		hr.WallS = time.Since(t0).Seconds()
	}
	return results
}

func (hr *harnessResult) absorb(r *interp.PathResult, cfg exploreCfg) {
	hr.Paths++
	hr.Outcomes[r.Outcome]++
	hr.Forks += r.Forks
	hr.Queries += r.Queries
	hr.SolverMs += r.SolverMs
	hr.Instrs += r.Instrs
	hr.Assumes += r.Assumes
	if len(r.Decisions) > hr.MaxDepth {
		hr.MaxDepth = len(r.Decisions)
	}
	if r.Uncertain {
		hr.Uncertain++
	}
	for _, o := range r.Obligations {
		hr.Obligations[o.Status]++
		if hr.OblLabels[o.Label] == nil {
			hr.OblLabels[o.Label] = map[string]int{}
		}
		hr.OblLabels[o.Label][o.Status]++
	}
	for _, v := range r.Violations {
		hr.Violations = append(hr.Violations, violationRec{hr.Spec.Func, v})
	}
	for _, l := range r.Reached {
		hr.Reached[l]++
	}
	for _, f := range r.Funcs {
		hr.Funcs[f] = true
	}
	for _, f := range r.Intrinsics {
		hr.Intrinsics[f] = true
	}
	for _, f := range r.OutOfModel {
		hr.OutOfModel[f]++
	}
	for _, g := range r.GlobalWrites {
		hr.GlobalWrites[g] = true
	}
	hr.Leaked += r.Leaked
	switch r.Outcome {
	case "engine-error":
		hr.EngineErrs = append(hr.EngineErrs, fmt.Sprintf("prefix %v: %s", r.Prefix, r.Detail))
	case "budget":
		hr.Budget = append(hr.Budget, r.Detail)
		// a path that does not finish within the instruction budget is a
		// candidate hang: it is reported only if the native run hangs too
		if r.HasWitness && len(hr.Budget) <= 3 {
			hr.Violations = append(hr.Violations, violationRec{hr.Spec.Func, interp.Violation{
				Label: "terminates", Kind: "hang", Detail: r.Detail, Inputs: r.Witness, Prefix: r.Decisions}})
		}
	case "panic", "deadlock", "exit":
		// implicit obligation: no uncaught panic / no deadlock
		hr.Obligations["violated"]++
		lbl := "no-" + r.Outcome
		if hr.OblLabels[lbl] == nil {
			hr.OblLabels[lbl] = map[string]int{}
		}
		hr.OblLabels[lbl]["violated"]++
		if r.HasWitness {
			hr.Violations = append(hr.Violations, violationRec{hr.Spec.Func, interp.Violation{
				Label: lbl, Kind: r.Outcome, Detail: r.Detail, Inputs: r.Witness, Prefix: r.Decisions}})
		} else {
			hr.Obligations["inconclusive"]++
		}
	case "ok":
		hr.Obligations["discharged"]++ // implicit: returned without panic or deadlock
		if hr.OblLabels["no-panic/no-deadlock"] == nil {
			hr.OblLabels["no-panic/no-deadlock"] = map[string]int{}
		}
		hr.OblLabels["no-panic/no-deadlock"]["discharged"]++
	}
	for _, rec := range r.Records {
		if hr.Records[rec.Label] == nil {
			hr.Records[rec.Label] = map[string]recInfo{}
		}
		if _, ok := hr.Records[rec.Label][rec.Val]; !ok {
			hr.Records[rec.Label][rec.Val] = recInfo{r.Witness, r.Decisions}
		}
	}
	if r.HasWitness && (r.Outcome == "ok") {
		if len(hr.Samples) < 3 {
			hr.Samples = append(hr.Samples, pathSample{hr.Spec.Func, r.Decisions, r.Outcome, r.Witness, r.Observations})
		}
		nval := hr.Spec.Validate[cfg.tier]
		if nval == 0 {
			nval = 40
			if cfg.tier == 1 {
				nval = 400
			}
		}
		// deterministic selection: first nval/2 paths plus every k-th later
		if len(hr.Witnesses) < nval {
			hr.Witnesses = append(hr.Witnesses, witnessRec{hr.Spec.Func, r.Outcome, r.Detail, r.Witness, r.Observations, r.Reached})
		}
	}
}

func sortedKeys(m map[string]bool) []string {
	var out []string
	for k := range m {
		out = append(out, k)
	}
	sort.Strings(out)
	return out
}

func sortedCountKeys(m map[string]int) []string {
	var out []string
	for k := range m {
		out = append(out, k)
	}
	sort.Strings(out)
	return out
}

func describeInputs(in []interp.InputRec) string {
	var parts []string
	for _, r := range in {
		switch r.Kind {
		case "bytes":
			bs := make([]byte, len(r.Vals))
			for i, v := range r.Vals {
				bs[i] = byte(v)
			}
			parts = append(parts, fmt.Sprintf("%s=%q", r.Name, string(bs)))
		case "int", "int64":
			parts = append(parts, fmt.Sprintf("%s=%d", r.Name, int64(r.Val)))
		case "int32":
			parts = append(parts, fmt.Sprintf("%s=%d", r.Name, int32(r.Val)))
		case "float":
			parts = append(parts, fmt.Sprintf("%s=0x%016x", r.Name, r.Val))
		default:
			parts = append(parts, fmt.Sprintf("%s=%d", r.Name, r.Val))
		}
	}
	return strings.Join(parts, " ")
}
