package main

import (
	"crypto/sha1"
	"fmt"
	"go/types"
	"os"
	"path/filepath"
	"sort"
	"strings"

	"golang.org/x/tools/go/packages"
	"golang.org/x/tools/go/ssa"
	"golang.org/x/tools/go/ssa/ssautil"

	"symgo/interp"
)

// overlayFiles maps virtual paths to the real files holding their content.
func overlayFiles() map[string]string {
	return map[string]string{
		filepath.Join(repoDir, "zz_verif_access.go"):         filepath.Join(harnessDir, "overlay/bcl_access.go.txt"),
		filepath.Join(repoDir, "cmd/bcl/zz_verif_access.go"): filepath.Join(harnessDir, "overlay/cmd_access.go.txt"),
	}
}

func goEnv() []string {
	env := os.Environ()
	flags := "-mod=mod"
	if repoDir != "/repo" {
		flags += " -modfile=" + altModFile()
	}
	env = append(env, "GOFLAGS="+flags, "GOPROXY=off", "GOSUMDB=off", "GOTOOLCHAIN=local", "CGO_ENABLED=0")
	return env
}

// altModFile writes a copy of the harness go.mod whose replace directive
// points at $VERIF_REPO (with the matching go.sum next to it).
func altModFile() string {
	os.MkdirAll(workDir, 0o755)
	h := fmt.Sprintf("%x", sha1.Sum([]byte(repoDir)))[:10]
	mod := filepath.Join(workDir, "alt-"+h+".mod")
	b, err := os.ReadFile(filepath.Join(harnessDir, "go.mod"))
	if err != nil {
		return mod
	}
	out := strings.Replace(string(b), "=> /repo", "=> "+repoDir, 1)
	if old, err := os.ReadFile(mod); err != nil || string(old) != out {
		tmp := mod + fmt.Sprintf(".tmp%d", os.Getpid())
		if os.WriteFile(tmp, []byte(out), 0o644) == nil {
			os.Rename(tmp, mod)
		}
	}
	if sum, err := os.ReadFile(filepath.Join(repoDir, "go.sum")); err == nil {
		sumFile := strings.TrimSuffix(mod, ".mod") + ".sum"
		if old, err := os.ReadFile(sumFile); err != nil || string(old) != string(sum) {
			tmp := sumFile + fmt.Sprintf(".tmp%d", os.Getpid())
			if os.WriteFile(tmp, sum, 0o644) == nil {
				os.Rename(tmp, sumFile)
			}
		}
	}
	return mod
}

// syncGoSum keeps the harness module's go.sum equal to the repository's.
func syncGoSum() {
	b, err := os.ReadFile(filepath.Join(repoDir, "go.sum"))
	if err != nil {
		return
	}
	dst := filepath.Join(harnessDir, "go.sum")
	if old, err := os.ReadFile(dst); err == nil && string(old) == string(b) {
		return
	}
	tmp := dst + fmt.Sprintf(".tmp%d", os.Getpid())
	if os.WriteFile(tmp, b, 0o644) == nil {
		os.Rename(tmp, dst)
	}
}

type loaded struct {
	prog    *ssa.Program
	harness *ssa.Package
	machine *interp.Machine
}

func loadProgram(solverTimeoutMs int) (*loaded, error) {
	overlay := map[string][]byte{}
	for virt, real := range overlayFiles() {
		b, err := os.ReadFile(real)
		if err != nil {
			continue
		}
		overlay[virt] = b
	}
	cfg := &packages.Config{
		Mode:    packages.LoadAllSyntax,
		Dir:     harnessDir,
		Env:     goEnv(),
		Overlay: overlay,
	}
	patterns := []string{harnessPkg, "github.com/wkhere/bcl/cmd/bcl"}
	initial, err := packages.Load(cfg, patterns...)
	if err != nil {
		return nil, err
	}
	var errs []string
	packages.Visit(initial, nil, func(p *packages.Package) {
		for _, e := range p.Errors {
			errs = append(errs, e.Error())
		}
	})
	if len(errs) > 0 {
		sort.Strings(errs)
		if len(errs) > 12 {
			errs = errs[:12]
		}
		return nil, fmt.Errorf("HARNESS-INCOMPATIBLE: the harness does not type-check against /repo:\n  %s", strings.Join(errs, "\n  "))
	}
	prog, pkgs := ssautil.AllPackages(initial, ssa.InstantiateGenerics)
	prog.Build()
	var hp *ssa.Package
	for _, p := range pkgs {
		if p != nil && p.Pkg.Path() == harnessPkg {
			hp = p
		}
	}
	if hp == nil {
		return nil, fmt.Errorf("harness package not found")
	}
	sizes := types.SizesFor("gc", "amd64")
	m, err := interp.NewMachine(prog, hp, sizes, solverTimeoutMs)
	if err != nil {
		return nil, err
	}
	return &loaded{prog: prog, harness: hp, machine: m}, nil
}
