package interp

// Intrinsics: the harness API (package verif) and models of functions whose
// real bodies are assembly, unsafe or reflection based.

import (
	"errors"
	"fmt"
	"go/types"
	"math"
	"regexp"
	"sort"
	"strconv"
	"strings"

	"golang.org/x/tools/go/ssa"
)

const verifPkg = "verifharness/verif."

func init() {
	for k, v := range map[string]extFn2{
		verifPkg + "Byte":       mVerifScalar("byte", 8),
		verifPkg + "Int":        mVerifScalar("int", 64),
		verifPkg + "Int64":      mVerifScalar("int64", 64),
		verifPkg + "Uint64":     mVerifScalar("uint64", 64),
		verifPkg + "Int32":      mVerifScalar("int32", 32),
		verifPkg + "Uint16":     mVerifScalar("uint16", 16),
		verifPkg + "Bool":       mVerifScalar("bool", 0),
		verifPkg + "Float64":    mVerifScalar("float", 64),
		verifPkg + "Bytes":      mVerifBytes(false),
		verifPkg + "String":     mVerifBytes(true),
		verifPkg + "Choice":     mVerifChoice,
		verifPkg + "Assume":     mVerifAssume,
		verifPkg + "Assert":     mVerifAssert,
		verifPkg + "Reach":      mVerifReach,
		verifPkg + "Observe":    mVerifObserve,
		verifPkg + "Record":     mVerifRecord,
		verifPkg + "Symbolic":   func(fr *frame, a []value) (value, bool) { return !cur.isConcrete, true },
		verifPkg + "Quiesce":    func(fr *frame, a []value) (value, bool) { return cur.sched.quiesce(), true },
		verifPkg + "OutOfModel": func(fr *frame, a []value) (value, bool) { cur.outOfModel(concStr(a[0])); return nil, true },
		verifPkg + "Fail":       func(fr *frame, a []value) (value, bool) { cur.assertObl(false, concStr(a[0])); return nil, true },
		verifPkg + "IsSym":      func(fr *frame, a []value) (value, bool) { return hasSym(a[0]), true },
		verifPkg + "Conc":       mVerifConc,
		verifPkg + "GlobalWrites": func(fr *frame, a []value) (value, bool) { return len(cur.res.GlobalWrites), true },
		verifPkg + "SchedTrace": func(fr *frame, a []value) (value, bool) { return len(cur.sched.trace), true },

		"fmt.Fprintf":  mFprintf,
		"fmt.Fprintln": mFprintln,
		"fmt.Fprint":   mFprint,
		"fmt.Sprintf":  mSprintf,
		"fmt.Sprint":   mSprint,
		"fmt.Sprintln": mSprintln,
		"fmt.Errorf":   mErrorf,
		"fmt.Println":  mDiscardPrint,
		"fmt.Printf":   mDiscardPrint,

		"internal/bytealg.IndexByteString": mIndexByteString,
		"internal/bytealg.IndexByte":       mIndexByte,
		"internal/bytealg.MakeNoZero":      mMakeNoZero,
		"internal/bytealg.Equal":           mBytesEqual,
		"bytes.Equal":                      mBytesEqual,
		"internal/bytealg.CountString":     mCountString,
		"internal/bytealg.IndexString":     mIndexString,
		"internal/stringslite.Index":       mIndexString,
		"strings.Index":                    mIndexString,
		"(*strings.Builder).copyCheck":     func(fr *frame, a []value) (value, bool) { return nil, true },
		"(*strings.Builder).String":        mBuilderString,
		"strings.Repeat":                   mRepeat,
		"strings.EqualFold":                mEqualFold,
		"strings.IndexByte":                mIndexByteString,
		"strings.ToLower":                  nil,
		"strings.Replace":                  nil,
		"strings.Count":                    nil,
		"strings.Clone":                    func(fr *frame, a []value) (value, bool) { return a[0], true },
		"internal/stringslite.Clone":       func(fr *frame, a []value) (value, bool) { return a[0], true },
		"strconv.Itoa":                     mItoa,
		"strconv.Atoi":                     nil,
		"strconv.FormatFloat":              mFormatFloat,
		"strconv.ParseFloat":               mParseFloat,
		"unicode/utf8.DecodeRuneInString":  nil,
		"math.Float64bits":                 func(fr *frame, a []value) (value, bool) { return mF64bits(a[0]), true },
		"math.Float64frombits":             func(fr *frame, a []value) (value, bool) { return mF64frombits(a[0]), true },
		"math.IsNaN":                       mIsNaN,
		"errors.Is":                        mErrorsIs,
		"os.Exit":                          func(fr *frame, a []value) (value, bool) { panic(exitPanic(concInt(a[0], "exit code"))) },
		"runtime.Gosched":                  func(fr *frame, a []value) (value, bool) { cur.sched.yieldToOthers(); return nil, true },
		"time.Sleep":                       func(fr *frame, a []value) (value, bool) { cur.sched.yieldToOthers(); return nil, true },
		"(*sync.Mutex).Lock":               mMutexLock,
		"(*sync.Mutex).Unlock":             mMutexUnlock,
		"(*sync.RWMutex).Lock":             mMutexLock,
		"(*sync.RWMutex).Unlock":           mMutexUnlock,
		"(*sync.RWMutex).RLock":            mRLock,
		"(*sync.RWMutex).RUnlock":          mRUnlock,
		"(*sync.Once).Do":                  nil,
		"(*sync.Pool).Get":                 mPoolGet,
		"(*sync.Pool).Put":                 mPoolPut,
		"(*sync.Map).Load":                 mSyncMapLoad,
		"(*sync.Map).Store":                mSyncMapStore,
		"(*sync.Map).LoadOrStore":          mSyncMapLoadOrStore,
		"(*sync.Map).LoadAndDelete":        mSyncMapLoadAndDelete,
		"(*sync.Map).Delete":               mSyncMapDelete,
		"(*sync.Map).Range":                mSyncMapRange,
	} {
		if v == nil {
			delete(externals, k)
			continue
		}
		models[k] = v
		delete(externals, k)
	}
}

func concStr(v value) string {
	switch s := v.(type) {
	case string:
		return s
	case sstring:
		panic(engineBug("symbolic string where a concrete one is required"))
	}
	panic(engineBug(fmt.Sprintf("concStr: %T", v)))
}

// ---- harness API ----

func (c *pathCtx) nextConcrete(kind, name string) InputRec {
	if c.cpos >= len(c.concrete) {
		c.abort("engine-error", fmt.Sprintf("concrete replay: input %s %q requested but witness exhausted", kind, name))
	}
	in := c.concrete[c.cpos]
	c.cpos++
	if in.Kind != kind || in.Name != name {
		c.abort("engine-error", fmt.Sprintf("concrete replay: input mismatch: want %s %q, witness has %s %q", kind, name, in.Kind, in.Name))
	}
	return in
}

func goTypeFor(kind string) types.Type {
	switch kind {
	case "byte":
		return types.Typ[types.Uint8]
	case "int":
		return types.Typ[types.Int]
	case "int64":
		return types.Typ[types.Int64]
	case "uint64":
		return types.Typ[types.Uint64]
	case "int32":
		return types.Typ[types.Int32]
	case "uint16":
		return types.Typ[types.Uint16]
	case "bool":
		return types.Typ[types.Bool]
	case "float":
		return types.Typ[types.Float64]
	}
	panic("goTypeFor " + kind)
}

func mVerifScalar(kind string, w uint8) extFn2 {
	return func(fr *frame, args []value) (value, bool) {
		name := concStr(args[0])
		if cur.isConcrete {
			in := cur.nextConcrete(kind, name)
			return concreteOf(goTypeFor(kind), in.Val), true
		}
		v := cur.freshVar(name, w)
		cur.inputs = append(cur.inputs, InputRec{Kind: kind, Name: name, Width: int(w)})
		cur.inputVars = append(cur.inputVars, []*Term{v})
		return v, true
	}
}

func mVerifBytes(asString bool) extFn2 {
	return func(fr *frame, args []value) (value, bool) {
		name := concStr(args[0])
		n := int(concInt(args[1], "Bytes length"))
		out := make([]value, n)
		if cur.isConcrete {
			in := cur.nextConcrete("bytes", name)
			for i := range out {
				var b uint64
				if i < len(in.Vals) {
					b = in.Vals[i]
				}
				out[i] = uint8(b)
			}
		} else {
			vars := make([]*Term, n)
			for i := range out {
				vars[i] = cur.freshVar(fmt.Sprintf("%s_%d", name, i), 8)
				out[i] = vars[i]
			}
			cur.inputs = append(cur.inputs, InputRec{Kind: "bytes", Name: name, N: n})
			cur.inputVars = append(cur.inputVars, vars)
		}
		if asString {
			return normStr(out), true
		}
		return out, true
	}
}

func mVerifChoice(fr *frame, args []value) (value, bool) {
	name := concStr(args[0])
	n := int(concInt(args[1], "Choice n"))
	if cur.isConcrete {
		in := cur.nextConcrete("choice", name)
		return int(in.Val), true
	}
	k := cur.choose(n)
	cur.inputs = append(cur.inputs, InputRec{Kind: "choice", Name: name, N: n, Val: uint64(k)})
	cur.inputVars = append(cur.inputVars, nil)
	return k, true
}

func mVerifAssume(fr *frame, args []value) (value, bool) {
	cur.assume(args[0])
	return nil, true
}

func mVerifAssert(fr *frame, args []value) (value, bool) {
	cur.assertObl(args[0], concStr(args[1]))
	return nil, true
}

func mVerifReach(fr *frame, args []value) (value, bool) {
	cur.reached[concStr(args[0])] = true
	return nil, true
}

func mVerifObserve(fr *frame, args []value) (value, bool) {
	v := prepObserved(fr, args[1])
	cur.obsTerms = append(cur.obsTerms, obsRec{concStr(args[0]), v})
	return nil, true
}

func mVerifRecord(fr *frame, args []value) (value, bool) {
	v := prepObserved(fr, args[1])
	cur.recTerms = append(cur.recTerms, obsRec{concStr(args[0]), v})
	return nil, true
}

// mVerifConc(x int) int: concretise an int by forking over its values.
func mVerifConc(fr *frame, args []value) (value, bool) {
	return int(concInt(args[0], "verif.Conc")), true
}

// rendered is an already canonical rendering prepared at observation time.
type rendered struct {
	pre  string
	sub  []value
	post string
}

// prepObserved resolves method calls (Error) now, while the frame is live, and
// copies aggregates so later mutation does not change the observation.
func prepObserved(fr *frame, v value) value {
	switch x := v.(type) {
	case iface:
		if x.t == nil {
			return rendered{pre: "nil"}
		}
		if m := findMethod(fr.i, x.t, "Error"); m != nil && isErrorType(x.t) {
			msg := callSSAMethod(fr, m, x.v)
			return rendered{pre: "err(", sub: []value{typedVal{types.Typ[types.String], msg}}, post: ")"}
		}
		return rendered{pre: typeName(x.t) + "(", sub: []value{prepTyped(fr, x.t, x.v)}, post: ")"}
	}
	panic(engineBug(fmt.Sprintf("Observe of non-interface %T", v)))
}

type typedVal struct {
	t types.Type
	v value
}

var typeNameFix = regexp.MustCompile(`\b(byte|rune|any)\b|interface\{\}`)

// typeName renders a type the way reflect.Type.String does natively.
func typeName(t types.Type) string {
	s := types.TypeString(t, func(p *types.Package) string { return p.Name() })
	return typeNameFix.ReplaceAllStringFunc(s, func(m string) string {
		switch m {
		case "byte":
			return "uint8"
		case "rune":
			return "int32"
		}
		return "interface {}"
	})
}

func isErrorType(t types.Type) bool {
	errT := types.Universe.Lookup("error").Type().Underlying().(*types.Interface)
	return types.Implements(t, errT)
}

func prepTyped(fr *frame, t types.Type, v value) value {
	switch ut := t.Underlying().(type) {
	case *types.Basic:
		return typedVal{t, v}
	case *types.Interface:
		return prepObserved(fr, v)
	case *types.Slice:
		xs := v.([]value)
		if eb, ok := ut.Elem().Underlying().(*types.Basic); ok && eb.Kind() == types.Uint8 {
			r := rendered{pre: "b\"", post: "\""}
			for _, e := range xs {
				r.sub = append(r.sub, typedVal{hexByteT, e})
			}
			return r
		}
		r := rendered{pre: "[", post: "]"}
		for i, e := range xs {
			if i > 0 {
				r.sub = append(r.sub, rendered{pre: " "})
			}
			r.sub = append(r.sub, prepTyped(fr, ut.Elem(), e))
		}
		return r
	case *types.Array:
		xs := v.(array)
		r := rendered{pre: "[", post: "]"}
		for i, e := range xs {
			if i > 0 {
				r.sub = append(r.sub, rendered{pre: " "})
			}
			r.sub = append(r.sub, prepTyped(fr, ut.Elem(), e))
		}
		return r
	case *types.Struct:
		xs := v.(structure)
		r := rendered{pre: "{", post: "}"}
		for i, e := range xs {
			if i > 0 {
				r.sub = append(r.sub, rendered{pre: " "})
			}
			r.sub = append(r.sub, prepTyped(fr, ut.Field(i).Type(), e))
		}
		return r
	case *types.Pointer:
		p := v.(*value)
		if p == nil {
			return rendered{pre: "nil"}
		}
		return rendered{pre: "&", sub: []value{prepTyped(fr, ut.Elem(), load(ut.Elem(), p))}}
	case *types.Map:
		m := v.(*omap)
		r := rendered{pre: "map[", post: "]"}
		if m != nil {
			mt := ut
			r.sub = append(r.sub, mapRender{m: m, kt: mt.Key(), vt: mt.Elem(), fr: fr, keys: append([]value(nil), m.keys...), vals: append([]value(nil), m.vals...)})
		}
		return r
	}
	panic(engineBug("Observe: unsupported type " + t.String()))
}

type mapRender struct {
	m      *omap
	kt, vt types.Type
	fr     *frame
	keys   []value
	vals   []value
}

var hexByteT = types.NewNamed(types.NewTypeName(0, nil, "hexbyte", nil), types.Typ[types.Uint8], nil)

func renderUnderModel(v value, m modelT, memo map[int32]uint64) string {
	var sb strings.Builder
	var rec func(v value)
	evalTerm := func(t *Term) uint64 { return t.eval(m, memo) }
	rec = func(v value) {
		switch x := v.(type) {
		case rendered:
			sb.WriteString(x.pre)
			for _, s := range x.sub {
				rec(s)
			}
			sb.WriteString(x.post)
		case mapRender:
			type kv struct{ k, v string }
			var kvs []kv
			for i := range x.keys {
				ks := renderUnderModel(prepTyped(x.fr, x.kt, x.keys[i]), m, memo)
				vs := renderUnderModel(prepTyped(x.fr, x.vt, x.vals[i]), m, memo)
				kvs = append(kvs, kv{ks, vs})
			}
			sort.Slice(kvs, func(i, j int) bool { return kvs[i].k < kvs[j].k })
			for i, e := range kvs {
				if i > 0 {
					sb.WriteString(" ")
				}
				sb.WriteString(e.k + ":" + e.v)
			}
		case typedVal:
			if x.t == hexByteT {
				var b uint64
				if t, ok := x.v.(*Term); ok {
					b = evalTerm(t)
				} else {
					b = uint64(x.v.(uint8))
				}
				fmt.Fprintf(&sb, "%02x", b)
				return
			}
			_, signed, kind := typeInfo(x.t)
			switch kind {
			case 's':
				bs := strBytes(x.v)
				out := make([]byte, len(bs))
				for i, b := range bs {
					if t, ok := b.(*Term); ok {
						if t.op == oAtom {
							out[i] = '?'
						} else {
							out[i] = byte(evalTerm(t))
						}
					} else {
						out[i] = b.(uint8)
					}
				}
				sb.WriteString(strconv.Quote(string(out)))
			case 'b':
				b := false
				if t, ok := x.v.(*Term); ok {
					b = evalTerm(t) != 0
				} else {
					b = x.v.(bool)
				}
				fmt.Fprintf(&sb, "%v", b)
			case 'f':
				var bits uint64
				if t, ok := x.v.(*Term); ok {
					bits = evalTerm(t)
				} else {
					bits = math.Float64bits(x.v.(float64))
				}
				f := math.Float64frombits(bits)
				if f != f {
					sb.WriteString("fNaN")
				} else {
					fmt.Fprintf(&sb, "f%016x", bits)
				}
			case 'i':
				var bits uint64
				var w uint8 = 64
				if t, ok := x.v.(*Term); ok {
					bits = evalTerm(t)
					w = t.w
				} else {
					lt := lift(x.v)
					bits, w = lt.k, lt.w
				}
				if signed {
					fmt.Fprintf(&sb, "%d", sext64(bits, w))
				} else {
					fmt.Fprintf(&sb, "%d", bits)
				}
			default:
				sb.WriteString("?")
			}
		default:
			fmt.Fprintf(&sb, "<%T>", v)
		}
	}
	rec(v)
	return sb.String()
}

// ---- method helpers ----

func findMethod(i *interpreter, t types.Type, name string) *ssa.Function {
	ms := i.prog.MethodSets.MethodSet(t)
	for k := 0; k < ms.Len(); k++ {
		sel := ms.At(k)
		if sel.Obj().Name() == name {
			return i.prog.MethodValue(sel)
		}
	}
	return nil
}

func callSSAMethod(fr *frame, m *ssa.Function, recv value, args ...value) value {
	all := append([]value{recv}, args...)
	return callSSA(fr.i, fr, 0, m, all, nil)
}

func invokeIface(fr *frame, recv iface, name string, args ...value) value {
	if recv.t == nil {
		panic(rtPanic("runtime error: invalid memory address or nil pointer dereference"))
	}
	m := findMethod(fr.i, recv.t, name)
	if m == nil {
		panic(engineBug(fmt.Sprintf("no method %s on %s", name, recv.t)))
	}
	return callSSAMethod(fr, m, recv.v, args...)
}

// ---- fmt ----

// formatArgs renders a format string with interpreter values into string bytes.
func formatValues(fr *frame, format string, args []value) []value {
	var out []value
	emit := func(s string) {
		for i := 0; i < len(s); i++ {
			out = append(out, s[i])
		}
	}
	argi := 0
	for i := 0; i < len(format); {
		c := format[i]
		if c != '%' {
			out = append(out, c)
			i++
			continue
		}
		j := i + 1
		for j < len(format) && strings.IndexByte("+-# 0123456789.", format[j]) >= 0 {
			j++
		}
		if j >= len(format) {
			emit("%!(NOVERB)")
			break
		}
		verb := format[j]
		spec := format[i : j+1]
		i = j + 1
		if verb == '%' {
			out = append(out, '%')
			continue
		}
		if argi >= len(args) {
			emit("%!" + string(verb) + "(MISSING)")
			continue
		}
		out = append(out, formatOne(fr, spec, verb, args[argi])...)
		argi++
	}
	if argi < len(args) {
		emit("%!(EXTRA)")
	}
	return out
}

// toNative converts a fully concrete interpreter value to a native Go value
// that the real fmt formats identically.
func toNative(fr *frame, v value) (interface{}, bool) {
	switch x := v.(type) {
	case iface:
		if x.t == nil {
			return nil, true
		}
		if hasSym(x.v) {
			return nil, false
		}
		if rt, ok := x.v.(rtype); ok {
			return typeName(rt.t), true
		}
		if m := findMethod(fr.i, x.t, "Error"); m != nil && isErrorType(x.t) {
			msg := callSSAMethod(fr, m, x.v)
			if s, ok := msg.(string); ok {
				return errors.New(s), true
			}
			return nil, false
		}
		if m := findMethod(fr.i, x.t, "String"); m != nil && m.Signature.Params().Len() == 0 && m.Signature.Results().Len() == 1 {
			msg := callSSAMethod(fr, m, x.v)
			if s, ok := msg.(string); ok {
				return stringerVal{s, x.v}, true
			}
			return nil, false
		}
		switch x.t.Underlying().(type) {
		case *types.Basic:
			return x.v, true
		case *types.Slice:
			xs := x.v.([]value)
			if eb, ok := x.t.Underlying().(*types.Slice).Elem().Underlying().(*types.Basic); ok && eb.Kind() == types.Uint8 {
				bs := make([]byte, len(xs))
				for i, e := range xs {
					bs[i] = e.(uint8)
				}
				return bs, true
			}
			out := make([]interface{}, len(xs))
			for i, e := range xs {
				n, ok := toNative(fr, iface{t: x.t.Underlying().(*types.Slice).Elem(), v: e})
				if !ok {
					return nil, false
				}
				out[i] = n
			}
			return out, true
		case *types.Struct:
			return structVal{fr, x.t, x.v.(structure)}, true
		case *types.Map:
			return mapVal{fr, x.t, x.v.(*omap)}, true
		case *types.Pointer:
			p := x.v.(*value)
			if p == nil {
				return nil, true
			}
			return fmt.Sprintf("%p", p), true
		}
		return nil, false
	}
	return v, true
}

type stringerVal struct {
	s   string
	raw value
}

func (s stringerVal) String() string { return s.s }
func (s stringerVal) Format(f fmt.State, verb rune) {
	switch verb {
	case 'd', 'x', 'X', 'c', 'U', 'b', 'o':
		fmt.Fprintf(f, fmt.FormatString(f, verb), s.raw)
	default:
		fmt.Fprintf(f, fmt.FormatString(f, verb), s.s)
	}
}

type structVal struct {
	fr *frame
	t  types.Type
	v  structure
}

func (s structVal) Format(f fmt.State, verb rune) {
	st := s.t.Underlying().(*types.Struct)
	f.Write([]byte("{"))
	for i, e := range s.v {
		if i > 0 {
			f.Write([]byte(" "))
		}
		if f.Flag('+') {
			fmt.Fprintf(f, "%s:", st.Field(i).Name())
		}
		n, ok := toNative(s.fr, iface{t: st.Field(i).Type(), v: e})
		if !ok {
			f.Write([]byte("?"))
			continue
		}
		fmt.Fprintf(f, fmt.FormatString(f, verb), n)
	}
	f.Write([]byte("}"))
}

type mapVal struct {
	fr *frame
	t  types.Type
	m  *omap
}

func (s mapVal) Format(f fmt.State, verb rune) {
	mt := s.t.Underlying().(*types.Map)
	type kv struct{ k, v string }
	var kvs []kv
	if s.m != nil {
		for i, k := range s.m.keys {
			nk, _ := toNative(s.fr, iface{t: mt.Key(), v: k})
			nv, _ := toNative(s.fr, iface{t: mt.Elem(), v: s.m.vals[i]})
			kvs = append(kvs, kv{fmt.Sprintf(fmt.FormatString(f, verb), nk), fmt.Sprintf(fmt.FormatString(f, verb), nv)})
		}
	}
	sort.Slice(kvs, func(i, j int) bool { return kvs[i].k < kvs[j].k })
	f.Write([]byte("map["))
	for i, e := range kvs {
		if i > 0 {
			f.Write([]byte(" "))
		}
		f.Write([]byte(e.k + ":" + e.v))
	}
	f.Write([]byte("]"))
}

func formatOne(fr *frame, spec string, verb byte, arg value) []value {
	if verb == 'T' {
		if x, ok := arg.(iface); ok {
			if x.t == nil {
				return strBytes("<nil>")
			}
			return strBytes(typeName(x.t))
		}
	}
	if n, ok := toNative(fr, arg); ok {
		return strBytes(fmt.Sprintf(spec, n))
	}
	// symbolic argument
	x := arg.(iface)
	switch v := x.v.(type) {
	case sstring:
		if (verb == 's' || verb == 'v') && spec == "%"+string(verb) {
			return []value(v)
		}
		if verb == 'q' {
			// quoted: keep bytes, wrap in quotes (escapes are not modelled)
			out := []value{uint8('"')}
			out = append(out, []value(v)...)
			out = append(out, uint8('"'))
			cur.outOfModel("%q of a symbolic string rendered without escapes")
			return out
		}
	case *Term:
		if _, isBasic := x.t.Underlying().(*types.Basic); isBasic {
			if u, ok := cur.uniqueValue(v); ok {
				return strBytes(fmt.Sprintf(spec, concreteOf(x.t, u)))
			}
		}
		return []value{cur.tt.Atom(spec+":"+typeName(x.t), v)}
	}
	// error / Stringer with symbolic content: call the method and splice
	if m := findMethod(fr.i, x.t, "Error"); m != nil && isErrorType(x.t) {
		return strBytes(callSSAMethod(fr, m, x.v))
	}
	if m := findMethod(fr.i, x.t, "String"); m != nil {
		return strBytes(callSSAMethod(fr, m, x.v))
	}
	cur.outOfModel("fmt of symbolic " + typeName(x.t) + " with " + spec)
	return []value{cur.tt.Atom(spec+":"+typeName(x.t), nil)}
}

func writeTo(fr *frame, w value, b []value) value {
	wi := w.(iface)
	res := invokeIface(fr, wi, "Write", append([]value(nil), b...))
	return res
}

func mFprintf(fr *frame, args []value) (value, bool) {
	out := formatValues(fr, concStr(args[1]), args[2].([]value))
	return writeTo(fr, args[0], out), true
}

func sprintArgs(fr *frame, args []value, ln bool) []value {
	var out []value
	for i, a := range args {
		if i > 0 && ln {
			out = append(out, uint8(' '))
		}
		if i > 0 && !ln {
			// Sprint adds spaces between operands when neither is a string
			ai, bi := args[i-1].(iface), a.(iface)
			if !isStrType(ai.t) && !isStrType(bi.t) {
				out = append(out, uint8(' '))
			}
		}
		out = append(out, formatOne(fr, "%v", 'v', a)...)
	}
	if ln {
		out = append(out, uint8('\n'))
	}
	return out
}

func isStrType(t types.Type) bool {
	if t == nil {
		return false
	}
	b, ok := t.Underlying().(*types.Basic)
	return ok && b.Kind() == types.String
}

func mFprintln(fr *frame, args []value) (value, bool) {
	return writeTo(fr, args[0], sprintArgs(fr, args[1].([]value), true)), true
}

func mFprint(fr *frame, args []value) (value, bool) {
	return writeTo(fr, args[0], sprintArgs(fr, args[1].([]value), false)), true
}

func mSprintf(fr *frame, args []value) (value, bool) {
	return normStr(formatValues(fr, concStr(args[0]), args[1].([]value))), true
}

func mSprint(fr *frame, args []value) (value, bool) {
	return normStr(sprintArgs(fr, args[0].([]value), false)), true
}

func mSprintln(fr *frame, args []value) (value, bool) {
	return normStr(sprintArgs(fr, args[0].([]value), true)), true
}

// fmt.Println / fmt.Printf write to the modelled standard output when a
// command is being run under the os model; otherwise they are discarded.
func mDiscardPrint(fr *frame, args []value) (value, bool) {
	if cur.os != nil {
		mf := osFileOf(cur.os.stdout)
		var out []value
		if fr.fn.Name() == "Printf" {
			out = formatValues(fr, concStr(args[0]), args[1].([]value))
		} else {
			out = sprintArgs(fr, args[0].([]value), true)
		}
		mf.data = append(mf.data, out...)
		return tuple{len(out), iface{}}, true
	}
	return tuple{0, iface{}}, true
}

func mErrorf(fr *frame, args []value) (value, bool) {
	format := concStr(args[0])
	vals := args[1].([]value)
	// %w: format as %v, remember the wrapped error
	var wrapped value
	f2 := format
	if idx := strings.Index(format, "%w"); idx >= 0 {
		f2 = strings.Replace(format, "%w", "%v", 1)
		// which argument?
		n := strings.Count(format[:idx], "%") - 2*strings.Count(format[:idx], "%%")
		if n >= 0 && n < len(vals) {
			wrapped = vals[n]
		}
	}
	msg := normStr(formatValues(fr, f2, vals))
	fmtPkg := fr.i.prog.ImportedPackage("fmt")
	if wrapped != nil && fmtPkg != nil {
		if wi, ok := wrapped.(iface); ok && wi.t != nil && isErrorType(wi.t) {
			wt := fmtPkg.Type("wrapError").Type()
			var cell value = structure{msg, wrapped}
			return iface{t: types.NewPointer(wt), v: &cell}, true
		}
	}
	errPkg := fr.i.prog.ImportedPackage("errors")
	return callSSA(fr.i, fr, 0, errPkg.Func("New"), []value{msg}, nil), true
}

func mErrorsIs(fr *frame, args []value) (value, bool) {
	err, target := args[0].(iface), args[1].(iface)
	for depth := 0; depth < 32; depth++ {
		if err.t == nil {
			return target.t == nil, true
		}
		if sameType(err.t, target.t) {
			comparable := true
			switch err.t.Underlying().(type) {
			case *types.Slice, *types.Map, *types.Signature:
				comparable = false
			}
			if comparable && truth(symEquals(err.t, err.v, target.v)) {
				return true, true
			}
		}
		m := findMethod(fr.i, err.t, "Unwrap")
		if m == nil || m.Signature.Results().Len() != 1 {
			return false, true
		}
		r, ok := callSSAMethod(fr, m, err.v).(iface)
		if !ok {
			return false, true
		}
		err = r
	}
	return false, true
}

// ---- strings / bytealg ----

func indexByteTerm(b []value, c value) value {
	// concrete fast path
	if cc, ok := c.(uint8); ok {
		allConc := true
		for _, x := range b {
			if _, ok := x.(uint8); !ok {
				allConc = false
				break
			}
		}
		if allConc {
			for i, x := range b {
				if x.(uint8) == cc {
					return i
				}
			}
			return -1
		}
	}
	tt := cur.tt
	res := tt.Const(^uint64(0), 64)
	for i := len(b) - 1; i >= 0; i-- {
		res = tt.Ite(byteEq(b[i], c), tt.Const(uint64(i), 64), res)
	}
	return unlift(types.Typ[types.Int], res)
}

func mIndexByteString(fr *frame, args []value) (value, bool) {
	return indexByteTerm(strBytes(args[0]), args[1]), true
}

func mIndexByte(fr *frame, args []value) (value, bool) {
	return indexByteTerm(args[0].([]value), args[1]), true
}

func mMakeNoZero(fr *frame, args []value) (value, bool) {
	n := int(concInt(args[0], "MakeNoZero"))
	out := make([]value, n)
	for i := range out {
		out[i] = uint8(0)
	}
	return out, true
}

func mBytesEqual(fr *frame, args []value) (value, bool) {
	var a, b []value
	switch x := args[0].(type) {
	case []value:
		a, b = x, args[1].([]value)
	default:
		a, b = strBytes(args[0]), strBytes(args[1])
	}
	if len(a) != len(b) {
		return false, true
	}
	r := cur.tt.tTrue
	for i := range a {
		r = cur.tt.BAnd(r, byteEq(a[i], b[i]))
	}
	return unlift(types.Typ[types.Bool], r), true
}

func mCountString(fr *frame, args []value) (value, bool) {
	b := strBytes(args[0])
	tt := cur.tt
	n := tt.Const(0, 64)
	for _, x := range b {
		n = tt.Bin(oAdd, n, tt.Ite(byteEq(x, args[1]), tt.Const(1, 64), tt.Const(0, 64)))
	}
	return unlift(types.Typ[types.Int], n), true
}

func mIndexString(fr *frame, args []value) (value, bool) {
	s, sub := args[0], args[1]
	if ss, ok := s.(string); ok {
		if sb, ok := sub.(string); ok {
			return strings.Index(ss, sb), true
		}
	}
	sb, subb := strBytes(s), strBytes(sub)
	for i := 0; i+len(subb) <= len(sb); i++ {
		r := cur.tt.tTrue
		for j := range subb {
			r = cur.tt.BAnd(r, byteEq(sb[i+j], subb[j]))
		}
		if cur.branch(r) {
			return i, true
		}
	}
	return -1, true
}

func mBuilderString(fr *frame, args []value) (value, bool) {
	p := args[0].(*value)
	st := (*p).(structure)
	// strings.Builder{addr *Builder; buf []byte}
	buf, _ := st[1].([]value)
	return normStr(append([]value(nil), buf...)), true
}

func mRepeat(fr *frame, args []value) (value, bool) {
	s := args[0]
	var n int64
	if t, ok := args[1].(*Term); ok {
		tt := cur.tt
		if cur.branch(tt.Cmp(oSlt, t, tt.Const(0, 64))) {
			panic(targetPanic{iface{t: types.Typ[types.String], v: "strings: negative Repeat count"}})
		}
		n = concInt(t, "strings.Repeat count")
	} else {
		n = asInt64(args[1])
		if n < 0 {
			panic(targetPanic{iface{t: types.Typ[types.String], v: "strings: negative Repeat count"}})
		}
	}
	b := strBytes(s)
	if int64(len(b))*n > 1<<24 {
		cur.abort("budget", "strings.Repeat result too large")
	}
	out := make([]value, 0, len(b)*int(n))
	for i := int64(0); i < n; i++ {
		out = append(out, b...)
	}
	return normStr(out), true
}

func mEqualFold(fr *frame, args []value) (value, bool) {
	if a, ok := args[0].(string); ok {
		if b, ok := args[1].(string); ok {
			return strings.EqualFold(a, b), true
		}
	}
	return nil, false // run the real code
}

func mItoa(fr *frame, args []value) (value, bool) {
	if t, ok := args[0].(*Term); ok {
		return sstring{cur.tt.Atom("itoa", t)}, true
	}
	return strconv.Itoa(int(asInt64(args[0]))), true
}

func mFormatFloat(fr *frame, args []value) (value, bool) {
	if t, ok := args[0].(*Term); ok {
		cur.outOfModel("strconv.FormatFloat of a symbolic float")
		return sstring{cur.tt.Atom("ftoa", t)}, true
	}
	f := args[0].(float64)
	fmtb := byte(concInt(args[1], "fmt"))
	prec := int(concInt(args[2], "prec"))
	bits := int(concInt(args[3], "bits"))
	return strconv.FormatFloat(f, fmtb, prec, bits), true
}

func mParseFloat(fr *frame, args []value) (value, bool) {
	s, ok := args[0].(string)
	if !ok {
		// symbolic digits: the lexer has already confined every byte to the
		// number alphabet, so concretising byte by byte forks a bounded number
		// of times; the conversion itself is then the real strconv.
		bs := strBytes(args[0])
		cb := make([]byte, len(bs))
		for i, b := range bs {
			if t, ok := b.(*Term); ok {
				cb[i] = byte(cur.concretize(t, "ParseFloat digit"))
			} else {
				cb[i] = b.(uint8)
			}
		}
		s = string(cb)
	}
	f, err := strconv.ParseFloat(s, int(concInt(args[1], "bitSize")))
	if err == nil {
		return tuple{f, iface{}}, true
	}
	// build a *strconv.NumError through the interpreted constructor-free path
	ne := err.(*strconv.NumError)
	sc := fr.i.prog.ImportedPackage("strconv")
	var inner value
	if errors.Is(ne.Err, strconv.ErrRange) {
		inner = load(types.Universe.Lookup("error").Type(), fr.i.globals[sc.Var("ErrRange")])
	} else {
		inner = load(types.Universe.Lookup("error").Type(), fr.i.globals[sc.Var("ErrSyntax")])
	}
	var cell value = structure{ne.Func, ne.Num, inner}
	return tuple{f, iface{t: types.NewPointer(sc.Type("NumError").Type()), v: &cell}}, true
}

func mF64bits(v value) value {
	if t, ok := v.(*Term); ok {
		return t
	}
	return math.Float64bits(v.(float64))
}

func mF64frombits(v value) value {
	if t, ok := v.(*Term); ok {
		return t
	}
	return math.Float64frombits(v.(uint64))
}

func mIsNaN(fr *frame, args []value) (value, bool) {
	if t, ok := args[0].(*Term); ok {
		return unlift(types.Typ[types.Bool], cur.tt.FIsNaN(t)), true
	}
	return math.IsNaN(args[0].(float64)), true
}

// ---- sync.Mutex ----

var mutexState = map[*value]int{} // reset per path via pathCtx

func mMutexLock(fr *frame, args []value) (value, bool) {
	p := args[0].(*value)
	cur.sched.schedPoint()
	if cur.locks[p] || cur.rlocks[p] > 0 {
		// a waiting writer blocks new readers (Go's RWMutex prefers writers)
		if cur.wwait == nil {
			cur.wwait = map[*value]int{}
		}
		cur.wwait[p]++
		cur.sched.block(func() bool { return !cur.locks[p] && cur.rlocks[p] == 0 }, "sync.Mutex.Lock")
		cur.wwait[p]--
	}
	cur.locks[p] = true
	cur.sched.logLock(evLock, p)
	return nil, true
}

func mMutexUnlock(fr *frame, args []value) (value, bool) {
	p := args[0].(*value)
	if !cur.locks[p] {
		panic(targetPanic{iface{t: types.Typ[types.String], v: "sync: unlock of unlocked mutex"}})
	}
	cur.sched.logLock(evUnlock, p)
	delete(cur.locks, p)
	return nil, true
}

// readers-writer lock: readers exclude the writer only
func mRLock(fr *frame, args []value) (value, bool) {
	p := args[0].(*value)
	cur.sched.schedPoint()
	if cur.locks[p] || cur.wwait[p] > 0 {
		cur.sched.block(func() bool { return !cur.locks[p] && cur.wwait[p] == 0 }, "sync.RWMutex.RLock")
	}
	if cur.rlocks == nil {
		cur.rlocks = map[*value]int{}
	}
	cur.rlocks[p]++
	cur.sched.logLock(evRLock, p)
	return nil, true
}

func mRUnlock(fr *frame, args []value) (value, bool) {
	p := args[0].(*value)
	if cur.rlocks[p] == 0 {
		panic(targetPanic{iface{t: types.Typ[types.String], v: "sync: RUnlock of unlocked RWMutex"}})
	}
	cur.sched.logLock(evRUnlock, p)
	cur.rlocks[p]--
	return nil, true
}

// sync.Pool: a plain LIFO free list per pool (one of the behaviours the real
// pool may show; objects are never dropped).
func mPoolGet(fr *frame, args []value) (value, bool) {
	p := args[0].(*value)
	if cur.pools == nil {
		cur.pools = map[*value][]value{}
	}
	if l := cur.pools[p]; len(l) > 0 {
		// Put(x) synchronizes before the Get that returns x (Go memory
		// model): both are logged as critical sections on the pool
		cur.sched.logLock(evLock, p)
		v := l[len(l)-1]
		cur.pools[p] = l[:len(l)-1]
		cur.sched.logLock(evUnlock, p)
		return v, true
	}
	st := (*p).(structure)
	newFn := st[len(st)-1]
	switch f := newFn.(type) {
	case *ssa.Function:
		if f == nil {
			return iface{}, true
		}
	case nil:
		return iface{}, true
	}
	return call(fr.i, fr, 0, newFn, nil), true
}

func mPoolPut(fr *frame, args []value) (value, bool) {
	p := args[0].(*value)
	if cur.pools == nil {
		cur.pools = map[*value][]value{}
	}
	if x, ok := args[1].(iface); ok && x.t == nil {
		return nil, true
	}
	cur.sched.logLock(evLock, p)
	cur.pools[p] = append(cur.pools[p], args[1])
	cur.sched.logLock(evUnlock, p)
	return nil, true
}

// sync.Map: an ordered map per receiver; every operation is atomic and
// ordered with the others on the same map (logged as a critical section, so
// that a Store happens before the Load that observes it).
var anyType = types.NewInterfaceType(nil, nil)

func syncMapOf(p *value) *omap {
	if cur.syncMaps == nil {
		cur.syncMaps = map[*value]*omap{}
	}
	m := cur.syncMaps[p]
	if m == nil {
		m = newOmap(anyType)
		m.fromInit = false
		cur.syncMaps[p] = m
	}
	return m
}

func syncMapOp(p *value, f func(m *omap)) {
	cur.sched.schedPoint()
	cur.sched.logLock(evLock, p)
	saved := cur.sched.logEvents
	cur.sched.logEvents = false
	f(syncMapOf(p))
	cur.sched.logEvents = saved
	cur.sched.logLock(evUnlock, p)
}

func mSyncMapLoad(fr *frame, args []value) (value, bool) {
	var res value
	syncMapOp(args[0].(*value), func(m *omap) {
		if v, ok := m.lookup(args[1]); ok {
			res = tuple{v, true}
		} else {
			res = tuple{iface{}, false}
		}
	})
	return res, true
}

func mSyncMapStore(fr *frame, args []value) (value, bool) {
	syncMapOp(args[0].(*value), func(m *omap) { m.insert(args[1], args[2]) })
	return nil, true
}

func mSyncMapLoadOrStore(fr *frame, args []value) (value, bool) {
	var res value
	syncMapOp(args[0].(*value), func(m *omap) {
		if v, ok := m.lookup(args[1]); ok {
			res = tuple{v, true}
		} else {
			m.insert(args[1], args[2])
			res = tuple{args[2], false}
		}
	})
	return res, true
}

func mSyncMapLoadAndDelete(fr *frame, args []value) (value, bool) {
	var res value
	syncMapOp(args[0].(*value), func(m *omap) {
		if v, ok := m.lookup(args[1]); ok {
			m.delete(args[1])
			res = tuple{v, true}
		} else {
			res = tuple{iface{}, false}
		}
	})
	return res, true
}

func mSyncMapDelete(fr *frame, args []value) (value, bool) {
	syncMapOp(args[0].(*value), func(m *omap) { m.delete(args[1]) })
	return nil, true
}

func mSyncMapRange(fr *frame, args []value) (value, bool) {
	var keys, vals []value
	syncMapOp(args[0].(*value), func(m *omap) {
		keys = append(keys, m.keys...)
		vals = append(vals, m.vals...)
	})
	for i := range keys {
		r := call(fr.i, fr, 0, args[1], []value{keys[i], vals[i]})
		if b, ok := r.(bool); ok && !b {
			break
		}
	}
	return nil, true
}
