package interp

// Path context: one symbolic execution of a harness under a decision prefix.

import (
	"fmt"
	"go/token"
	"os"
	"sort"
	"strings"
)

// InputRec is one verif.* input request made by the harness, in order.
type InputRec struct {
	Kind  string `json:"kind"` // byte,int,int64,uint64,bool,float,choice,bytes
	Name  string `json:"name"`
	Width int    `json:"width,omitempty"`
	N     int    `json:"n,omitempty"`
	// filled from a model:
	Val  uint64   `json:"val"`
	Vals []uint64 `json:"vals,omitempty"`
}

type Obligation struct {
	Label  string `json:"label"`
	Status string `json:"status"` // discharged | trivial | violated | inconclusive
	Pos    string `json:"pos,omitempty"`
	Detail string `json:"detail,omitempty"`
}

type Observation struct {
	Label string `json:"label"`
	Val   string `json:"val"`
}

type Violation struct {
	Label  string     `json:"label"`
	Kind   string     `json:"kind"` // assert | panic | deadlock | budget | leak
	Detail string     `json:"detail"`
	Inputs []InputRec `json:"inputs"`
	Sched  []int      `json:"sched,omitempty"`
	Prefix []int      `json:"prefix"`
}

// PathResult is what a worker reports for one explored path.
type PathResult struct {
	Harness      string        `json:"harness"`
	Prefix       []int         `json:"prefix"`
	Decisions    []int         `json:"decisions"`
	Alternatives [][]int       `json:"alternatives"`
	Outcome      string        `json:"outcome"` // ok | infeasible | panic | deadlock | budget | engine-error | assume-false
	Detail       string        `json:"detail,omitempty"`
	Obligations  []Obligation  `json:"obligations"`
	Violations   []Violation   `json:"violations"`
	Reached      []string      `json:"reached"`
	Observations []Observation `json:"observations,omitempty"`
	Records      []Observation `json:"records,omitempty"`
	Witness      []InputRec    `json:"witness"`
	HasWitness   bool          `json:"has_witness"`
	Forks        int           `json:"forks"`
	Queries      int           `json:"queries"`
	SolverMs     float64       `json:"solver_ms"`
	Instrs       int64         `json:"instrs"`
	Uncertain    bool          `json:"uncertain,omitempty"`
	OutOfModel   []string      `json:"out_of_model,omitempty"`
	Funcs        []string      `json:"funcs,omitempty"`
	Intrinsics   []string      `json:"intrinsics,omitempty"`
	Assumes      int           `json:"assumes"`
	GlobalWrites []string      `json:"global_writes,omitempty"`
	SolverErrors int           `json:"solver_errors,omitempty"`
	Events       int           `json:"events,omitempty"`
	Leaked       int           `json:"leaked,omitempty"`
}

type pathAbort struct {
	outcome string
	detail  string
}

type pathCtx struct {
	tt        *termTable
	sol       *solver
	prefix    []int
	pos       int
	decisions []int
	alts      [][]int
	inputs    []InputRec
	inputVars [][]*Term // per input, its variables
	res       *PathResult
	instrs    int64
	budget    int64
	nvars     int
	reached   map[string]bool
	funcs     map[string]bool
	intr      map[string]bool
	oom       map[string]bool
	obsTerms  []obsRec
	recTerms  []obsRec
	pcTerms   []*Term
	// concrete replay mode: inputs come from a witness instead of symbols
	concrete  []InputRec
	cpos      int
	sched     *scheduler
	schedExplore bool
	mapOrderExplore bool
	curPos    token.Pos
	fset      *token.FileSet
	inInit      bool
	isConcrete  bool
	globalCells map[*value]string
	locks       map[*value]bool
	uniq        map[int32]uniqRes
}

type obsRec struct {
	label string
	v     value
}

// cur is the path being executed by this worker process. Interpreted
// goroutines are serialised by the scheduler baton, so no locking is needed.
var cur *pathCtx

func (c *pathCtx) abort(outcome, detail string) {
	panic(pathAbort{outcome, detail})
}

func (c *pathCtx) recordDecision(d int) {
	c.decisions = append(c.decisions, d)
}

func (c *pathCtx) addPC(t *Term) {
	c.pcTerms = append(c.pcTerms, t)
	c.sol.assert(t)
}

// branch decides a symbolic condition, forking if both sides are feasible.
func (c *pathCtx) branch(cond *Term) bool {
	if cond.op == oTrue {
		return true
	}
	if cond.op == oFalse {
		return false
	}
	if c.pos < len(c.prefix) {
		d := c.prefix[c.pos]
		c.pos++
		c.recordDecision(d)
		if d == 1 {
			c.addPC(cond)
		} else {
			c.addPC(c.tt.Not(cond))
		}
		return d == 1
	}
	c.pos++
	c.res.Forks++
	rt := c.sol.check(cond, false)
	var rf satResult
	if rt == resUnsat {
		rf = resSat // PC is satisfiable by invariant
	} else {
		rf = c.sol.check(cond, true)
	}
	if rt == resUnknown || rf == resUnknown {
		c.res.Uncertain = true
	}
	switch {
	case rt != resUnsat && rf != resUnsat:
		alt := append(append([]int(nil), c.decisions...), 0)
		c.alts = append(c.alts, alt)
		c.recordDecision(1)
		c.addPC(cond)
		return true
	case rt != resUnsat:
		c.recordDecision(1)
		c.addPC(cond)
		return true
	case rf != resUnsat:
		c.recordDecision(0)
		c.addPC(c.tt.Not(cond))
		return false
	}
	c.abort("infeasible", "both sides of a branch unsatisfiable")
	return false
}

// choose is an unconditioned n-way fork.
func (c *pathCtx) choose(n int) int {
	if n <= 0 {
		c.abort("engine-error", "choose(0)")
	}
	if n == 1 {
		return 0
	}
	if c.pos < len(c.prefix) {
		d := c.prefix[c.pos]
		c.pos++
		c.recordDecision(d)
		return d
	}
	c.pos++
	c.res.Forks++
	for k := n - 1; k >= 1; k-- {
		alt := append(append([]int(nil), c.decisions...), k)
		c.alts = append(c.alts, alt)
	}
	c.recordDecision(0)
	return 0
}

// concretize forks over the feasible values of t (must be a small domain).
func (c *pathCtx) concretize(t *Term, why string) uint64 {
	if t.op == oConst {
		return t.k
	}
	if t.w == 0 {
		if c.branch(t) {
			return 1
		}
		return 0
	}
	for iter := 0; ; iter++ {
		if iter > 4096 {
			c.abort("engine-error", "concretize: domain too large: "+why)
		}
		var v uint64
		if c.pos < len(c.prefix) {
			// replaying: the value was stored in the prefix as 2+value marker
			d := c.prefix[c.pos]
			if d >= 2 {
				c.pos++
				c.recordDecision(d)
				v = uint64(d - 2)
				c.addPC(c.tt.Cmp(oEq, t, c.tt.Const(v, t.w)))
				return v
			}
			// d==0 means "not the previously tried value": we must replay the
			// rejected value as well; it is stored right after.
			c.pos++
			c.recordDecision(0)
			rej := uint64(c.prefix[c.pos] - 2)
			c.pos++
			c.recordDecision(int(rej) + 2)
			c.addPC(c.tt.Not(c.tt.Cmp(oEq, t, c.tt.Const(rej, t.w))))
			continue
		}
		// ask the solver for some value
		r := c.sol.check(nil, false)
		if r != resSat {
			c.res.Uncertain = true
			c.abort("infeasible", "concretize: no model: "+why)
		}
		c.sol.define(t)
		m := c.sol.values([]*Term{t})
		if m == nil {
			c.abort("engine-error", "concretize: no value")
		}
		for _, x := range m {
			v = x
		}
		if v > 1<<30 {
			c.abort("engine-error", fmt.Sprintf("concretize: value too large (%d): %s", v, why))
		}
		eq := c.tt.Cmp(oEq, t, c.tt.Const(v, t.w))
		c.res.Forks++
		// is another value possible?
		other := c.sol.check(eq, true)
		if other != resUnsat {
			if other == resUnknown {
				c.res.Uncertain = true
			}
			alt := append(append([]int(nil), c.decisions...), 0, int(v)+2)
			c.alts = append(c.alts, alt)
		}
		c.pos++
		c.recordDecision(int(v) + 2)
		c.addPC(eq)
		return v
	}
}

func (c *pathCtx) freshVar(name string, w uint8) *Term {
	c.nvars++
	clean := strings.Map(func(r rune) rune {
		if r >= 'a' && r <= 'z' || r >= 'A' && r <= 'Z' || r >= '0' && r <= '9' || r == '_' {
			return r
		}
		return '_'
	}, name)
	return c.tt.Var(fmt.Sprintf("v%d_%s", c.nvars, clean), w)
}

func (c *pathCtx) posString() string {
	if c.fset != nil && c.curPos != token.NoPos {
		p := c.fset.Position(c.curPos)
		return fmt.Sprintf("%s:%d", shortFile(p.Filename), p.Line)
	}
	return ""
}

func shortFile(f string) string {
	if i := strings.LastIndex(f, "/"); i >= 0 {
		if j := strings.LastIndex(f[:i], "/"); j >= 0 {
			return f[j+1:]
		}
	}
	return f
}

// model returns concrete input values satisfying the current path condition
// (plus an optional extra assumption).
func (c *pathCtx) model(extra *Term, neg bool) ([]InputRec, bool) {
	r := c.sol.check(extra, neg)
	if r != resSat {
		return nil, false
	}
	var vars []*Term
	for _, vs := range c.inputVars {
		vars = append(vars, vs...)
	}
	m := c.sol.values(vars)
	if m == nil {
		return nil, false
	}
	out := make([]InputRec, len(c.inputs))
	copy(out, c.inputs)
	for i := range out {
		vs := c.inputVars[i]
		if len(vs) == 0 {
			continue
		}
		if out[i].Kind == "bytes" {
			out[i].Vals = make([]uint64, len(vs))
			for j, v := range vs {
				out[i].Vals[j] = m[v.name]
			}
		} else {
			out[i].Val = m[vs[0].name]
		}
	}
	return out, true
}

func (c *pathCtx) modelMap(inputs []InputRec) modelT {
	m := modelT{}
	for i, in := range inputs {
		vs := c.inputVars[i]
		if in.Kind == "bytes" {
			for j, v := range vs {
				if j < len(in.Vals) {
					m[v.name] = in.Vals[j]
				}
			}
		} else if len(vs) == 1 {
			m[vs[0].name] = in.Val
		}
	}
	return m
}

func (c *pathCtx) violation(kind, label, detail string, extra *Term, neg bool) {
	inputs, ok := c.model(extra, neg)
	if !ok {
		c.res.Obligations = append(c.res.Obligations, Obligation{Label: label, Status: "inconclusive", Pos: c.posString(), Detail: "no model for " + kind})
		return
	}
	v := Violation{Label: label, Kind: kind, Detail: detail, Inputs: inputs,
		Prefix: append([]int(nil), c.decisions...)}
	if c.sched != nil {
		v.Sched = append([]int(nil), c.sched.trace...)
	}
	c.res.Violations = append(c.res.Violations, v)
}

// assertObl handles verif.Assert.
func (c *pathCtx) assertObl(cond value, label string) {
	pos := c.posString()
	switch x := cond.(type) {
	case bool:
		if x {
			c.res.Obligations = append(c.res.Obligations, Obligation{Label: label, Status: "trivial", Pos: pos})
			return
		}
		c.res.Obligations = append(c.res.Obligations, Obligation{Label: label, Status: "violated", Pos: pos})
		c.violation("assert", label, "assertion is false on this path", nil, false)
		c.abort("assert-failed", label)
	case *Term:
		r := c.sol.check(x, true)
		switch r {
		case resUnsat:
			c.res.Obligations = append(c.res.Obligations, Obligation{Label: label, Status: "discharged", Pos: pos})
			return
		case resSat:
			c.res.Obligations = append(c.res.Obligations, Obligation{Label: label, Status: "violated", Pos: pos, Detail: x.String()})
			c.violation("assert", label, "assertion can be false: "+x.String(), x, true)
		default:
			c.res.Obligations = append(c.res.Obligations, Obligation{Label: label, Status: "inconclusive", Pos: pos, Detail: x.String()})
		}
		// continue under the assumption that the assertion held, if possible
		if c.sol.check(x, false) == resUnsat {
			c.abort("assert-failed", label)
		}
		c.addPC(x)
	default:
		c.abort("engine-error", fmt.Sprintf("Assert on %T", cond))
	}
}

func (c *pathCtx) assume(cond value) {
	c.res.Assumes++
	switch x := cond.(type) {
	case bool:
		if !x {
			c.abort("assume-false", "")
		}
	case *Term:
		if c.pos < len(c.prefix) {
			// replay: still cheap to just assert
			c.addPC(x)
			return
		}
		if c.sol.check(x, false) == resUnsat {
			c.abort("assume-false", "")
		}
		c.addPC(x)
	}
}

func (c *pathCtx) finish() {
	for k := range c.reached {
		c.res.Reached = append(c.res.Reached, k)
	}
	sort.Strings(c.res.Reached)
	for k := range c.funcs {
		c.res.Funcs = append(c.res.Funcs, k)
	}
	sort.Strings(c.res.Funcs)
	for k := range c.intr {
		c.res.Intrinsics = append(c.res.Intrinsics, k)
	}
	sort.Strings(c.res.Intrinsics)
	for k := range c.oom {
		c.res.OutOfModel = append(c.res.OutOfModel, k)
	}
	sort.Strings(c.res.OutOfModel)
	c.res.Decisions = c.decisions
	c.res.Alternatives = c.alts
	c.res.Instrs = c.instrs
}

func (c *pathCtx) outOfModel(what string) {
	c.oom[what] = true
}

func debugf(format string, args ...interface{}) {
	if os.Getenv("SYMGO_DEBUG") != "" {
		fmt.Fprintf(os.Stderr, format, args...)
	}
}

// uniqueValue reports whether t has exactly one value under the current path
// condition (two solver queries); used to print forced values concretely.
func (c *pathCtx) uniqueValue(t *Term) (uint64, bool) {
	if t.isConst() {
		if t.op == oTrue {
			return 1, true
		}
		return t.k, true
	}
	if t.op == oAtom {
		return 0, false
	}
	if v, ok := c.uniq[t.id]; ok {
		return v.v, v.ok
	}
	res := uniqRes{}
	if t.w == 0 {
		rt := c.sol.check(t, false)
		rf := c.sol.check(t, true)
		switch {
		case rt == resSat && rf == resUnsat:
			res = uniqRes{1, true}
		case rt == resUnsat && rf == resSat:
			res = uniqRes{0, true}
		}
	} else if c.sol.check(nil, false) == resSat {
		c.sol.define(t)
		m := c.sol.values([]*Term{t})
		if m != nil {
			var v uint64
			for _, x := range m {
				v = x
			}
			eq := c.tt.Cmp(oEq, t, c.tt.Const(v, t.w))
			if c.sol.check(eq, true) == resUnsat {
				res = uniqRes{v, true}
			}
		}
	}
	if c.uniq == nil {
		c.uniq = map[int32]uniqRes{}
	}
	// only positive answers stay valid as the path condition grows
	if res.ok {
		c.uniq[t.id] = res
	}
	return res.v, res.ok
}

type uniqRes struct {
	v  uint64
	ok bool
}
