package interp

// Path context: one symbolic execution of a harness under a decision prefix.

import (
	"fmt"
	"go/token"
	"os"
	"sort"
	"strings"

	"golang.org/x/tools/go/ssa"
)

// InputRec is one verif.* input request made by the harness, in order.
type InputRec struct {
	Kind  string `json:"kind"` // byte,int,int64,uint64,bool,float,choice,bytes
	Name  string `json:"name"`
	Width int    `json:"width,omitempty"`
	N     int    `json:"n,omitempty"`
	// filled from a model:
	Val  uint64   `json:"val"`
	Vals []uint64 `json:"vals,omitempty"`
}

type Obligation struct {
	Label  string `json:"label"`
	Status string `json:"status"` // discharged | trivial | violated | inconclusive
	Pos    string `json:"pos,omitempty"`
	Detail string `json:"detail,omitempty"`
}

type Observation struct {
	Label string `json:"label"`
	Val   string `json:"val"`
}

type Violation struct {
	Label  string     `json:"label"`
	Kind   string     `json:"kind"` // assert | panic | deadlock | budget | leak
	Detail string     `json:"detail"`
	Inputs []InputRec `json:"inputs"`
	Sched  []int      `json:"sched,omitempty"`
	Prefix []int      `json:"prefix"`
}

// PathResult is what a worker reports for one explored path.
type PathResult struct {
	Harness      string        `json:"harness"`
	Prefix       []int         `json:"prefix"`
	Decisions    []int         `json:"decisions"`
	Alternatives []Alt         `json:"alternatives"`
	Outcome      string        `json:"outcome"` // ok | infeasible | panic | deadlock | budget | engine-error | assume-false
	Detail       string        `json:"detail,omitempty"`
	Obligations  []Obligation  `json:"obligations"`
	Violations   []Violation   `json:"violations"`
	Reached      []string      `json:"reached"`
	Observations []Observation `json:"observations,omitempty"`
	Records      []Observation `json:"records,omitempty"`
	Witness      []InputRec    `json:"witness"`
	HasWitness   bool          `json:"has_witness"`
	Forks        int           `json:"forks"`
	Queries      int           `json:"queries"`
	SolverMs     float64       `json:"solver_ms"`
	WallMs       float64       `json:"wall_ms"`
	Instrs       int64         `json:"instrs"`
	Uncertain    bool          `json:"uncertain,omitempty"`
	OutOfModel   []string      `json:"out_of_model,omitempty"`
	Funcs        []string      `json:"funcs,omitempty"`
	Intrinsics   []string      `json:"intrinsics,omitempty"`
	Assumes      int           `json:"assumes"`
	GlobalWrites []string      `json:"global_writes,omitempty"`
	SolverErrors int           `json:"solver_errors,omitempty"`
	Events       int           `json:"events,omitempty"`
	Leaked       int           `json:"leaked,omitempty"`
	RaceQueries  int           `json:"race_queries,omitempty"`
	HBConstraints int          `json:"hb_constraints,omitempty"`
}

type pathAbort struct {
	outcome string
	detail  string
}

type pathCtx struct {
	tt        *termTable
	sol       *solver
	prefix    []int
	decisions []int
	alts      []Alt
	curModel  modelT
	memo      map[int32]uint64
	inputs    []InputRec
	inputVars [][]*Term // per input, its variables
	res       *PathResult
	instrs    int64
	budget    int64
	nvars     int
	reached   map[string]bool
	funcs     map[string]bool
	intr      map[string]bool
	oom       map[string]bool
	obsTerms  []obsRec
	recTerms  []obsRec
	pcTerms   []*Term
	// concrete replay mode: inputs come from a witness instead of symbols
	concrete  []InputRec
	cpos      int
	sched     *scheduler
	schedExplore bool
	mapOrderExplore bool
	curPos    token.Pos
	curFn     *ssa.Function
	fset      *token.FileSet
	inInit      bool
	isConcrete  bool
	globalCells map[*value]string
	locks       map[*value]bool
	rlocks      map[*value]int
	wwait       map[*value]int
	pools       map[*value][]value
	syncMaps    map[*value]*omap
	os          *osState
	uniq        map[int32]uniqRes
}

type obsRec struct {
	label string
	v     value
}

// cur is the path being executed by this worker process. Interpreted
// goroutines are serialised by the scheduler baton, so no locking is needed.
var cur *pathCtx

func (c *pathCtx) abort(outcome, detail string) {
	panic(pathAbort{outcome, detail})
}

func (c *pathCtx) recordDecision(d int) {
	c.decisions = append(c.decisions, d)
}

func (c *pathCtx) addPC(t *Term) {
	c.pcTerms = append(c.pcTerms, t)
	c.sol.assert(t)
}

// Alt is an unexplored alternative: a decision prefix together with a model
// (values of the input variables) that satisfies its path condition.
type Alt struct {
	Prefix []int             `json:"prefix"`
	Model  map[string]uint64 `json:"model,omitempty"`
}

// evalBool evaluates a Bool term under the current model.
func (c *pathCtx) evalUnderModel(t *Term) uint64 {
	if c.memo == nil {
		c.memo = map[int32]uint64{}
	}
	return t.eval(c.curModel, c.memo)
}

// fetchModel reads the values of all input variables after a sat answer.
func (c *pathCtx) fetchModel() modelT {
	var vars []*Term
	for _, vs := range c.inputVars {
		vars = append(vars, vs...)
	}
	m := c.sol.values(vars)
	if m == nil {
		return nil
	}
	return m
}

func (c *pathCtx) setModel(m modelT) {
	c.curModel = m
	c.memo = nil
}

func (c *pathCtx) pushAlt(last []int, m modelT) {
	pre := append(append([]int(nil), c.decisions...), last...)
	c.alts = append(c.alts, Alt{Prefix: pre, Model: m})
}

// branch decides a symbolic condition. The path keeps a model of its path
// condition and always follows the side that model satisfies, so only the
// other side needs a solver query.
func (c *pathCtx) branch(cond *Term) bool {
	if cond.op == oTrue {
		return true
	}
	if cond.op == oFalse {
		return false
	}
	if len(c.decisions) < len(c.prefix) {
		d := c.prefix[len(c.decisions)]
		c.recordDecision(d)
		if d == 1 {
			c.addPC(cond)
		} else {
			c.addPC(c.tt.Not(cond))
		}
		return d == 1
	}
	c.res.Forks++
	if c.curModel == nil {
		// no model (after an inconclusive query): decide both sides
		rt := c.sol.check(cond, false)
		if rt == resSat {
			c.setModel(c.fetchModel())
		}
		if rt == resUnknown {
			c.res.Uncertain = true
		}
		if rt == resUnsat {
			c.recordDecision(0)
			c.addPC(c.tt.Not(cond))
			return false
		}
		rf := c.sol.check(cond, true)
		if rf != resUnsat {
			var m modelT
			if rf == resSat {
				m = c.fetchModel()
			} else {
				c.res.Uncertain = true
			}
			c.pushAlt([]int{0}, m)
		}
		c.recordDecision(1)
		c.addPC(cond)
		return true
	}
	side := c.evalUnderModel(cond) != 0
	other := c.sol.check(cond, side) // side true: check (not cond)
	switch other {
	case resSat:
		d := 1
		if side {
			d = 0
		}
		c.pushAlt([]int{d}, c.fetchModel())
	case resUnknown:
		c.res.Uncertain = true
		d := 1
		if side {
			d = 0
		}
		c.pushAlt([]int{d}, nil)
	}
	if side {
		c.recordDecision(1)
		c.addPC(cond)
	} else {
		c.recordDecision(0)
		c.addPC(c.tt.Not(cond))
	}
	return side
}

// choose is an unconditioned n-way fork.
func (c *pathCtx) choose(n int) int {
	if n <= 0 {
		c.abort("engine-error", "choose(0)")
	}
	if n == 1 {
		return 0
	}
	if len(c.decisions) < len(c.prefix) {
		d := c.prefix[len(c.decisions)]
		c.recordDecision(d)
		return d
	}
	c.res.Forks++
	for k := n - 1; k >= 1; k-- {
		c.pushAlt([]int{k}, c.curModel)
	}
	c.recordDecision(0)
	return 0
}

// concretize forks over the feasible values of t (must be a small domain).
// All feasible values are enumerated once with the solver (model, block,
// repeat); each becomes one alternative carrying its own model. A decision
// v+2 means "t == v".
func (c *pathCtx) concretize(t *Term, why string) uint64 {
	if t.op == oConst {
		return t.k
	}
	if t.w == 0 {
		if c.branch(t) {
			return 1
		}
		return 0
	}
	if len(c.decisions) < len(c.prefix) {
		d := c.prefix[len(c.decisions)]
		c.recordDecision(d)
		v := uint64(d - 2)
		c.addPC(c.tt.Cmp(oEq, t, c.tt.Const(v, t.w)))
		return v
	}
	c.res.Forks++
	const limit = 4096
	type cand struct {
		v uint64
		m modelT
	}
	var cands []cand
	c.sol.define(t)
	c.sol.sendRaw("(push 1)")
	for {
		r := c.sol.check(nil, false)
		if r == resUnsat {
			break
		}
		if r != resSat {
			c.res.Uncertain = true
			break
		}
		m := c.fetchModelWith(t)
		if m == nil {
			c.sol.sendRaw("(pop 1)")
			c.abort("engine-error", "concretize: no model values")
		}
		v := m["\x00t"]
		delete(m, "\x00t")
		cands = append(cands, cand{v, m})
		if len(cands) > limit {
			c.sol.sendRaw("(pop 1)")
			c.abort("engine-error", fmt.Sprintf("concretize: more than %d values: %s", limit, why))
		}
		c.sol.sendRaw("(assert (not (= " + t.ref() + " " + smtConst(v, t.w) + ")))")
	}
	c.sol.sendRaw("(pop 1)")
	if len(cands) == 0 {
		c.abort("infeasible", "concretize: no value: "+why)
	}
	// deterministic order
	sort.Slice(cands, func(i, j int) bool { return cands[i].v < cands[j].v })
	for _, k := range cands[1:] {
		if k.v > 1<<30 {
			c.abort("engine-error", fmt.Sprintf("concretize: value too large (%d): %s", k.v, why))
		}
		c.pushAlt([]int{int(k.v) + 2}, k.m)
	}
	first := cands[0]
	if first.v > 1<<30 {
		c.abort("engine-error", fmt.Sprintf("concretize: value too large (%d): %s", first.v, why))
	}
	c.recordDecision(int(first.v) + 2)
	c.addPC(c.tt.Cmp(oEq, t, c.tt.Const(first.v, t.w)))
	c.setModel(first.m)
	return first.v
}

// fetchModelWith returns the input model plus the value of t under key "\x00t".
func (c *pathCtx) fetchModelWith(t *Term) modelT {
	var vars []*Term
	for _, vs := range c.inputVars {
		vars = append(vars, vs...)
	}
	vars = append(vars, t)
	m := c.sol.values(vars)
	if m == nil {
		return nil
	}
	m["\x00t"] = m[t.ref()]
	if t.op != oVar {
		delete(m, t.ref())
	}
	return m
}

func (c *pathCtx) freshVar(name string, w uint8) *Term {
	c.nvars++
	clean := strings.Map(func(r rune) rune {
		if r >= 'a' && r <= 'z' || r >= 'A' && r <= 'Z' || r >= '0' && r <= '9' || r == '_' {
			return r
		}
		return '_'
	}, name)
	v := c.tt.Var(fmt.Sprintf("v%d_%s", c.nvars, clean), w)
	// declare now, in the path's own solver scope: a declaration made later
	// inside a temporary push/pop scope would be lost with it
	c.sol.define(v)
	return v
}

func (c *pathCtx) posString() string {
	if c.fset != nil && c.curPos != token.NoPos {
		p := c.fset.Position(c.curPos)
		return fmt.Sprintf("%s:%d", shortFile(p.Filename), p.Line)
	}
	return ""
}

func shortFile(f string) string {
	if i := strings.LastIndex(f, "/"); i >= 0 {
		if j := strings.LastIndex(f[:i], "/"); j >= 0 {
			return f[j+1:]
		}
	}
	return f
}

// model returns concrete input values satisfying the current path condition
// (plus an optional extra assumption).
func (c *pathCtx) model(extra *Term, neg bool) ([]InputRec, bool) {
	var m modelT
	if extra == nil && c.curModel != nil {
		m = c.curModel
	} else {
		r := c.sol.check(extra, neg)
		if r != resSat {
			return nil, false
		}
		m = c.fetchModel()
		if m == nil {
			return nil, false
		}
		if extra == nil {
			c.setModel(m)
		}
	}
	out := make([]InputRec, len(c.inputs))
	copy(out, c.inputs)
	for i := range out {
		vs := c.inputVars[i]
		if len(vs) == 0 {
			continue
		}
		if out[i].Kind == "bytes" {
			out[i].Vals = make([]uint64, len(vs))
			for j, v := range vs {
				out[i].Vals[j] = m[v.name]
			}
		} else {
			out[i].Val = m[vs[0].name]
		}
	}
	return out, true
}

func (c *pathCtx) modelMap(inputs []InputRec) modelT {
	m := modelT{}
	for i, in := range inputs {
		vs := c.inputVars[i]
		if in.Kind == "bytes" {
			for j, v := range vs {
				if j < len(in.Vals) {
					m[v.name] = in.Vals[j]
				}
			}
		} else if len(vs) == 1 {
			m[vs[0].name] = in.Val
		}
	}
	return m
}

func (c *pathCtx) violation(kind, label, detail string, extra *Term, neg bool) {
	inputs, ok := c.model(extra, neg)
	if !ok {
		c.res.Obligations = append(c.res.Obligations, Obligation{Label: label, Status: "inconclusive", Pos: c.posString(), Detail: "no model for " + kind})
		return
	}
	v := Violation{Label: label, Kind: kind, Detail: detail, Inputs: inputs,
		Prefix: append([]int(nil), c.decisions...)}
	if c.sched != nil {
		v.Sched = append([]int(nil), c.sched.trace...)
	}
	c.res.Violations = append(c.res.Violations, v)
}

// assertObl handles verif.Assert.
func (c *pathCtx) assertObl(cond value, label string) {
	pos := c.posString()
	switch x := cond.(type) {
	case bool:
		if x {
			c.res.Obligations = append(c.res.Obligations, Obligation{Label: label, Status: "trivial", Pos: pos})
			return
		}
		c.res.Obligations = append(c.res.Obligations, Obligation{Label: label, Status: "violated", Pos: pos})
		c.violation("assert", label, "assertion is false on this path", nil, false)
		c.abort("assert-failed", label)
	case *Term:
		r := c.sol.check(x, true)
		switch r {
		case resUnsat:
			c.res.Obligations = append(c.res.Obligations, Obligation{Label: label, Status: "discharged", Pos: pos})
			return
		case resSat:
			c.res.Obligations = append(c.res.Obligations, Obligation{Label: label, Status: "violated", Pos: pos, Detail: x.String()})
			c.violation("assert", label, "assertion can be false: "+x.String(), x, true)
		default:
			c.res.Obligations = append(c.res.Obligations, Obligation{Label: label, Status: "inconclusive", Pos: pos, Detail: x.String()})
		}
		// continue under the assumption that the assertion held, if possible
		if r != resUnsat {
			if c.curModel == nil || c.evalUnderModel(x) == 0 {
				switch c.sol.check(x, false) {
				case resUnsat:
					c.abort("assert-failed", label)
				case resSat:
					c.setModel(c.fetchModel())
				default:
					c.setModel(nil)
				}
			}
		}
		c.addPC(x)
	default:
		c.abort("engine-error", fmt.Sprintf("Assert on %T", cond))
	}
}

func (c *pathCtx) assume(cond value) {
	c.res.Assumes++
	switch x := cond.(type) {
	case bool:
		if !x {
			c.abort("assume-false", "")
		}
	case *Term:
		if len(c.decisions) < len(c.prefix) {
			// replay: the prefix's model already satisfies the assumption
			c.addPC(x)
			return
		}
		if c.curModel == nil || c.evalUnderModel(x) == 0 {
			switch c.sol.check(x, false) {
			case resUnsat:
				c.abort("assume-false", "")
			case resSat:
				m := c.fetchModel()
				c.addPC(x)
				c.setModel(m)
				return
			default:
				c.res.Uncertain = true
				c.setModel(nil)
			}
		}
		c.addPC(x)
	}
}

func (c *pathCtx) finish() {
	for k := range c.reached {
		c.res.Reached = append(c.res.Reached, k)
	}
	sort.Strings(c.res.Reached)
	for k := range c.funcs {
		c.res.Funcs = append(c.res.Funcs, k)
	}
	sort.Strings(c.res.Funcs)
	for k := range c.intr {
		c.res.Intrinsics = append(c.res.Intrinsics, k)
	}
	sort.Strings(c.res.Intrinsics)
	for k := range c.oom {
		c.res.OutOfModel = append(c.res.OutOfModel, k)
	}
	sort.Strings(c.res.OutOfModel)
	c.res.Decisions = c.decisions
	c.res.Alternatives = c.alts
	c.res.Instrs = c.instrs
}

func (c *pathCtx) outOfModel(what string) {
	c.oom[what] = true
}

func debugf(format string, args ...interface{}) {
	if os.Getenv("SYMGO_DEBUG") != "" {
		fmt.Fprintf(os.Stderr, format, args...)
	}
}

// uniqueValue reports whether t has exactly one value under the current path
// condition (two solver queries); used to print forced values concretely.
func (c *pathCtx) uniqueValue(t *Term) (uint64, bool) {
	if t.isConst() {
		if t.op == oTrue {
			return 1, true
		}
		return t.k, true
	}
	if t.op == oAtom || t.fp {
		// floating-point terms: the two queries are expensive and the answer
		// is almost never "unique"
		return 0, false
	}
	if v, ok := c.uniq[t.id]; ok {
		return v.v, v.ok
	}
	res := uniqRes{}
	if t.w == 0 {
		rt := c.sol.check(t, false)
		rf := c.sol.check(t, true)
		switch {
		case rt == resSat && rf == resUnsat:
			res = uniqRes{1, true}
		case rt == resUnsat && rf == resSat:
			res = uniqRes{0, true}
		}
	} else if c.sol.check(nil, false) == resSat {
		c.sol.define(t)
		m := c.sol.values([]*Term{t})
		if m != nil {
			var v uint64
			for _, x := range m {
				v = x
			}
			eq := c.tt.Cmp(oEq, t, c.tt.Const(v, t.w))
			if c.sol.check(eq, true) == resUnsat {
				res = uniqRes{v, true}
			}
		}
	}
	if c.uniq == nil {
		c.uniq = map[int32]uniqRes{}
	}
	// only positive answers stay valid as the path condition grows
	if res.ok {
		c.uniq[t.id] = res
	}
	return res.v, res.ok
}

type uniqRes struct {
	v  uint64
	ok bool
}
