package interp

// One persistent `z3 -in` process per worker. Every command sent since the
// last (reset) is kept in a transcript so any query can be re-run on another
// solver for cross-checking.

import (
	"bufio"
	"fmt"
	"io"
	"os"
	"os/exec"
	"strconv"
	"strings"
	"time"
)

type satResult int

const (
	resUnsat satResult = iota
	resSat
	resUnknown
)

func (r satResult) String() string {
	return [...]string{"unsat", "sat", "unknown"}[r]
}

type solver struct {
	cmd        *exec.Cmd
	in         io.WriteCloser
	out        *bufio.Reader
	transcript strings.Builder
	defined    map[int32]bool
	declared   map[string]bool
	queries    int
	solveTime  time.Duration
	timeoutMs  int
	retries    int
	bin        string
	args       []string
	errors     int
	pushed     bool
	lastErr    string
	// second-solver cross-check: sampled unsat verdicts are written out as
	// stand-alone scripts that the driver re-decides on another solver
	xdir   string
	tag    string
	unsatN int
	xslow  int
}

func newSolver(timeoutMs int) *solver {
	// z3 5.1.0 (z3-new) is the primary solver: its get-value after
	// check-sat-assuming is ~40x faster than 4.8.12's, which matters because
	// every explored alternative carries a model. 4.8.12 is the fallback.
	s := &solver{timeoutMs: timeoutMs, bin: "z3-new", args: []string{"-in"}}
	if _, err := exec.LookPath("z3-new"); err != nil {
		s.bin = "z3"
	}
	if b := os.Getenv("SYMGO_SOLVER"); b != "" {
		f := strings.Fields(b)
		s.bin, s.args = f[0], f[1:]
	}
	s.xdir = os.Getenv("SYMGO_XCHECK_DIR")
	s.tag = "q"
	s.start()
	return s
}

func (s *solver) start() {
	s.cmd = exec.Command(s.bin, s.args...)
	var err error
	s.in, err = s.cmd.StdinPipe()
	if err != nil {
		panic(err)
	}
	op, err := s.cmd.StdoutPipe()
	if err != nil {
		panic(err)
	}
	s.cmd.Stderr = os.Stderr
	s.out = bufio.NewReaderSize(op, 1<<16)
	if err := s.cmd.Start(); err != nil {
		panic(err)
	}
	s.reset()
}

func (s *solver) close() {
	if s.cmd != nil {
		s.in.Close()
		s.cmd.Process.Kill()
		s.cmd.Wait()
		s.cmd = nil
	}
}

var dumpFile *os.File

func (s *solver) send(line string) {
	if dumpFile == nil && os.Getenv("SYMGO_SMTDUMP") != "" {
		dumpFile, _ = os.Create(os.Getenv("SYMGO_SMTDUMP"))
	}
	if dumpFile != nil {
		dumpFile.WriteString(line + "\n")
	}
	s.transcript.WriteString(line)
	s.transcript.WriteByte('\n')
	io.WriteString(s.in, line)
	io.WriteString(s.in, "\n")
}

func (s *solver) reset() {
	s.transcript.Reset()
	s.defined = make(map[int32]bool)
	s.declared = make(map[string]bool)
	if !s.pushed {
		s.send("(reset)")
		s.send("(set-option :print-success false)")
		s.send(fmt.Sprintf("(set-option :timeout %d)", s.timeoutMs))
	} else {
		io.WriteString(s.in, "(pop 1)\n")
		if dumpFile != nil {
			dumpFile.WriteString("(pop 1)\n")
		}
		s.transcript.WriteString("(set-option :print-success false)\n")
	}
	io.WriteString(s.in, "(push 1)\n")
	if dumpFile != nil {
		dumpFile.WriteString("(push 1)\n")
	}
	s.pushed = true
}

// define makes sure t and all its sub-terms are defined in the solver.
func (s *solver) define(t *Term) {
	if t == nil {
		return
	}
	switch t.op {
	case oConst, oTrue, oFalse:
		return
	case oVar:
		if !s.declared[t.name] {
			s.declared[t.name] = true
			s.send(fmt.Sprintf("(declare-const %s %s)", t.name, smtSort(t.w)))
		}
		return
	}
	if s.defined[t.id] {
		return
	}
	s.define(t.a)
	s.define(t.b)
	s.define(t.c)
	s.defined[t.id] = true
	s.send(fmt.Sprintf("(define-fun t%d () %s %s)", t.id, smtSort(t.w), t.body()))
}

// sendRaw sends a command that is not part of the path's definitions.
func (s *solver) sendRaw(line string) { s.send(line) }

func (s *solver) assert(t *Term) {
	s.define(t)
	s.send("(assert " + t.ref() + ")")
}

func (s *solver) readLine() string {
	line, err := s.out.ReadString('\n')
	if err != nil {
		panic(fmt.Sprintf("solver died: %v (last error %q)", err, s.lastErr))
	}
	return strings.TrimSpace(line)
}

// readSexp reads a balanced s-expression (possibly spanning lines).
func (s *solver) readSexp() string {
	var sb strings.Builder
	depth := 0
	started := false
	for {
		line := s.readLine()
		if line == "" && !started {
			continue
		}
		sb.WriteString(line)
		sb.WriteByte(' ')
		for _, c := range line {
			if c == '(' {
				depth++
				started = true
			} else if c == ')' {
				depth--
			}
		}
		if !started || depth <= 0 {
			break
		}
	}
	return sb.String()
}

// check decides satisfiability of the asserted formulas plus the optional
// assumption (a Bool term, negated if neg).
func (s *solver) check(assume *Term, neg bool) satResult {
	t0 := time.Now()
	s.queries++
	cmd := ""
	send := func(c string) {
		cmd = c
		s.send(c)
	}
	if assume == nil {
		send("(check-sat)")
	} else {
		s.define(assume)
		lit := assume.ref()
		if assume.isConst() {
			// constants cannot be assumption literals
			v := assume.op == oTrue
			if neg {
				v = !v
			}
			if !v {
				return resUnsat
			}
			send("(check-sat)")
		} else if neg {
			send("(check-sat-assuming ((not " + lit + ")))")
		} else {
			send("(check-sat-assuming (" + lit + "))")
		}
	}
	errsBefore := s.errors
	res := s.readVerdict()
	if res == resUnknown && s.errors == errsBefore && s.timeoutMs > 0 {
		// a timeout (e.g. on a loaded machine): ask once more with four times
		// the limit before giving the path up as inconclusive
		s.retries++
		s.send(fmt.Sprintf("(set-option :timeout %d)", 4*s.timeoutMs))
		s.send(cmd)
		res = s.readVerdict()
		s.send(fmt.Sprintf("(set-option :timeout %d)", s.timeoutMs))
	}
	s.solveTime += time.Since(t0)
	if res == resUnsat && s.xdir != "" {
		s.unsatN++
		slow := time.Since(t0) > 500*time.Millisecond && s.xslow < 6
		if slow {
			s.xslow++
		}
		if slow || sampled125(s.unsatN) {
			s.saveQuery(cmd)
		}
	}
	return res
}

// sampled125 is true for 1,2,5,10,20,50,100,...: a log-spaced sample of the
// worker's unsat verdicts.
func sampled125(n int) bool {
	for n >= 10 && n%10 == 0 {
		n /= 10
	}
	return n == 1 || n == 2 || n == 5
}

// saveQuery writes everything asserted since the last reset, without the
// earlier queries, followed by the given check command.
func (s *solver) saveQuery(cmd string) {
	var sb strings.Builder
	for _, line := range strings.Split(s.transcript.String(), "\n") {
		if strings.HasPrefix(line, "(check-sat") || strings.HasPrefix(line, "(get-value") ||
			strings.HasPrefix(line, "(set-option :timeout") || strings.HasPrefix(line, "(reset)") || line == "" {
			continue
		}
		sb.WriteString(line)
		sb.WriteByte('\n')
	}
	sb.WriteString(cmd)
	sb.WriteByte('\n')
	name := fmt.Sprintf("%s/%s-%d-%d.smt2", s.xdir, s.tag, os.Getpid(), s.unsatN)
	os.WriteFile(name, []byte(sb.String()), 0o644)
}

// SetQueryTag names the harness the following queries belong to.
func (m *Machine) SetQueryTag(t string) { m.sol.tag = t }

// readVerdict reads the answer to a check-sat command.
func (s *solver) readVerdict() satResult {
	res := resUnknown
	for {
		line := s.readLine()
		if line == "" {
			continue
		}
		if strings.HasPrefix(line, "(error") {
			s.errors++
			s.lastErr = line
			// an error line precedes the verdict for check-sat only if the
			// command itself failed; in that case no verdict follows.
			if strings.Contains(line, "check-sat") || strings.Contains(line, "unknown constant") || strings.Contains(line, "invalid") {
				res = resUnknown
				break
			}
			continue
		}
		switch line {
		case "sat":
			res = resSat
		case "unsat":
			res = resUnsat
		case "unknown", "timeout":
			res = resUnknown
		default:
			s.lastErr = "unexpected solver output: " + line
			s.errors++
			continue
		}
		break
	}
	return res
}

// values returns the model values of the given variables; must follow a sat check.
func (s *solver) values(vars []*Term) modelT {
	m := modelT{}
	if len(vars) == 0 {
		return m
	}
	var sb strings.Builder
	sb.WriteString("(get-value (")
	for _, v := range vars {
		s.define(v)
		sb.WriteString(v.ref())
		sb.WriteByte(' ')
	}
	sb.WriteString("))")
	s.send(sb.String())
	out := s.readSexp()
	if strings.HasPrefix(out, "(error") {
		s.errors++
		s.lastErr = out
		return nil
	}
	// parse ((name val) (name val) ...)
	toks := strings.Fields(strings.NewReplacer("(", " ", ")", " ").Replace(out))
	for i := 0; i+1 < len(toks); i += 2 {
		name, val := toks[i], toks[i+1]
		var v uint64
		switch {
		case strings.HasPrefix(val, "#x"):
			v, _ = strconv.ParseUint(val[2:], 16, 64)
		case strings.HasPrefix(val, "#b"):
			v, _ = strconv.ParseUint(val[2:], 2, 64)
		case val == "true":
			v = 1
		case val == "false":
			v = 0
		default:
			s.lastErr = "unparsed model value " + val
			s.errors++
		}
		m[name] = v
	}
	return m
}

func (s *solver) script() string { return s.transcript.String() }
