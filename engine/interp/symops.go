package interp

// Symbolic counterparts of binop/unop/conv/equals and the symbolic string type.

import (
	"fmt"
	"go/token"
	"go/types"
	"math"
)

// sstring is a string of concrete length whose bytes are uint8 or *Term(w=8).
// It is immutable by convention. A string with only concrete bytes is always
// normalised back to a Go string.
type sstring []value

func isSym(v value) bool {
	_, ok := v.(*Term)
	return ok
}

func normStr(b []value) value {
	for _, x := range b {
		if _, ok := x.(*Term); ok {
			return sstring(b)
		}
	}
	bs := make([]byte, len(b))
	for i, x := range b {
		bs[i] = x.(uint8)
	}
	return string(bs)
}

func strBytes(v value) []value {
	switch s := v.(type) {
	case string:
		out := make([]value, len(s))
		for i := 0; i < len(s); i++ {
			out[i] = s[i]
		}
		return out
	case sstring:
		return []value(s)
	}
	panic(fmt.Sprintf("strBytes: %T", v))
}

func strLen(v value) int {
	switch s := v.(type) {
	case string:
		return len(s)
	case sstring:
		return len(s)
	}
	panic(fmt.Sprintf("strLen: %T", v))
}

func isStringVal(v value) bool {
	switch v.(type) {
	case string, sstring:
		return true
	}
	return false
}

// typeInfo describes a basic type for encoding purposes.
func typeInfo(t types.Type) (w uint8, signed bool, kind byte) {
	// kind: 'i' integer, 'f' float64, 'g' float32, 'b' bool, 's' string, 0 other
	bt, ok := t.Underlying().(*types.Basic)
	if !ok {
		return 0, false, 0
	}
	switch bt.Kind() {
	case types.Bool, types.UntypedBool:
		return 0, false, 'b'
	case types.Int, types.Int64, types.UntypedInt:
		return 64, true, 'i'
	case types.Int8:
		return 8, true, 'i'
	case types.Int16:
		return 16, true, 'i'
	case types.Int32, types.UntypedRune:
		return 32, true, 'i'
	case types.Uint, types.Uint64, types.Uintptr:
		return 64, false, 'i'
	case types.Uint8:
		return 8, false, 'i'
	case types.Uint16:
		return 16, false, 'i'
	case types.Uint32:
		return 32, false, 'i'
	case types.Float64, types.UntypedFloat:
		return 64, true, 'f'
	case types.Float32:
		return 32, true, 'g'
	case types.String, types.UntypedString:
		return 0, false, 's'
	}
	return 0, false, 0
}

// lift converts a concrete scalar to a constant term (by dynamic Go type).
func lift(v value) *Term {
	tt := cur.tt
	switch x := v.(type) {
	case *Term:
		return x
	case bool:
		return tt.Bool(x)
	case int:
		return tt.Const(uint64(x), 64)
	case int8:
		return tt.Const(uint64(x), 8)
	case int16:
		return tt.Const(uint64(x), 16)
	case int32:
		return tt.Const(uint64(x), 32)
	case int64:
		return tt.Const(uint64(x), 64)
	case uint:
		return tt.Const(uint64(x), 64)
	case uint8:
		return tt.Const(uint64(x), 8)
	case uint16:
		return tt.Const(uint64(x), 16)
	case uint32:
		return tt.Const(uint64(x), 32)
	case uint64:
		return tt.Const(x, 64)
	case uintptr:
		return tt.Const(uint64(x), 64)
	case float64:
		return tt.Const(math.Float64bits(x), 64)
	}
	panic(fmt.Sprintf("lift: cannot lift %T", v))
}

// concreteOf builds the concrete Go value of basic type t from bits.
func concreteOf(t types.Type, bits uint64) value {
	bt := t.Underlying().(*types.Basic)
	switch bt.Kind() {
	case types.Bool, types.UntypedBool:
		return bits != 0
	case types.Int, types.UntypedInt:
		return int(bits)
	case types.Int8:
		return int8(bits)
	case types.Int16:
		return int16(bits)
	case types.Int32, types.UntypedRune:
		return int32(bits)
	case types.Int64:
		return int64(bits)
	case types.Uint:
		return uint(bits)
	case types.Uint8:
		return uint8(bits)
	case types.Uint16:
		return uint16(bits)
	case types.Uint32:
		return uint32(bits)
	case types.Uint64:
		return bits
	case types.Uintptr:
		return uintptr(bits)
	case types.Float64, types.UntypedFloat:
		return math.Float64frombits(bits)
	}
	panic(fmt.Sprintf("concreteOf: %s", t))
}

// unlift turns a constant term back into a concrete value of type t.
func unlift(t types.Type, x *Term) value {
	switch x.op {
	case oTrue:
		return true
	case oFalse:
		return false
	case oConst:
		return concreteOf(t, x.k)
	}
	return x
}

func goPanic(msg string) {
	panic(rtPanic(msg))
}

// truth forks on a possibly symbolic boolean and returns the side taken.
func truth(v value) bool {
	switch x := v.(type) {
	case bool:
		return x
	case *Term:
		return cur.branch(x)
	}
	panic(fmt.Sprintf("truth: %T", v))
}

// concInt returns a concrete int64 for an integer value, concretising if needed.
func concInt(v value, why string) int64 {
	if t, ok := v.(*Term); ok {
		u := cur.concretize(t, why)
		return sext64(u, t.w)
	}
	return asInt64(v)
}

func symBinop(op token.Token, t types.Type, x, y value) value {
	tt := cur.tt
	w, signed, kind := typeInfo(t)
	switch kind {
	case 's':
		return strBinop(op, x, y)
	case 'b':
		a, b := lift(x), lift(y)
		switch op {
		case token.EQL:
			return unlift(types.Typ[types.Bool], tt.Cmp(oEq, a, b))
		case token.NEQ:
			return unlift(types.Typ[types.Bool], tt.Not(tt.Cmp(oEq, a, b)))
		case token.LAND, token.AND:
			return unlift(types.Typ[types.Bool], tt.BAnd(a, b))
		case token.LOR, token.OR:
			return unlift(types.Typ[types.Bool], tt.BOr(a, b))
		}
	case 'f':
		a, b := lift(x), lift(y)
		boolT := types.Typ[types.Bool]
		switch op {
		case token.ADD:
			return unlift(t, tt.Bin(oFAdd, a, b))
		case token.SUB:
			return unlift(t, tt.Bin(oFSub, a, b))
		case token.MUL:
			return unlift(t, tt.Bin(oFMul, a, b))
		case token.QUO:
			return unlift(t, tt.Bin(oFDiv, a, b))
		case token.EQL:
			return unlift(boolT, tt.Cmp(oFEq, a, b))
		case token.NEQ:
			return unlift(boolT, tt.Not(tt.Cmp(oFEq, a, b)))
		case token.LSS:
			return unlift(boolT, tt.Cmp(oFLt, a, b))
		case token.LEQ:
			return unlift(boolT, tt.Cmp(oFLe, a, b))
		case token.GTR:
			return unlift(boolT, tt.Cmp(oFLt, b, a))
		case token.GEQ:
			return unlift(boolT, tt.Cmp(oFLe, b, a))
		}
	case 'i':
		a := lift(x)
		boolT := types.Typ[types.Bool]
		if op == token.SHL || op == token.SHR {
			b := lift(y)
			// Go: negative signed shift count panics.
			if _, ysigned := y.(*Term); ysigned {
				// the static type of y is not available here; shift counts in the
				// code under test are unsigned or constant. Treat as unsigned.
			}
			return unlift(t, symShift(op, a, b, signed))
		}
		b := lift(y)
		switch op {
		case token.ADD:
			return unlift(t, tt.Bin(oAdd, a, b))
		case token.SUB:
			return unlift(t, tt.Bin(oSub, a, b))
		case token.MUL:
			return unlift(t, tt.Bin(oMul, a, b))
		case token.QUO, token.REM:
			zero := tt.Cmp(oEq, b, tt.Const(0, w))
			if cur.branch(zero) {
				goPanic("runtime error: integer divide by zero")
			}
			var o opKind
			switch {
			case op == token.QUO && signed:
				o = oSDiv
			case op == token.QUO:
				o = oUDiv
			case signed:
				o = oSRem
			default:
				o = oURem
			}
			return unlift(t, tt.Bin(o, a, b))
		case token.AND:
			return unlift(t, tt.Bin(oAnd, a, b))
		case token.OR:
			return unlift(t, tt.Bin(oOr, a, b))
		case token.XOR:
			return unlift(t, tt.Bin(oXor, a, b))
		case token.AND_NOT:
			return unlift(t, tt.Bin(oAnd, a, tt.Not(b)))
		case token.EQL:
			return unlift(boolT, tt.Cmp(oEq, a, b))
		case token.NEQ:
			return unlift(boolT, tt.Not(tt.Cmp(oEq, a, b)))
		case token.LSS, token.LEQ, token.GTR, token.GEQ:
			if op == token.GTR || op == token.GEQ {
				a, b = b, a
			}
			var o opKind
			strict := op == token.LSS || op == token.GTR
			switch {
			case strict && signed:
				o = oSlt
			case strict:
				o = oUlt
			case signed:
				o = oSle
			default:
				o = oUle
			}
			return unlift(boolT, tt.Cmp(o, a, b))
		}
	}
	panic(fmt.Sprintf("symBinop: unsupported %s on %s (%T, %T)", op, t, x, y))
}

func symShift(op token.Token, a, b *Term, signed bool) *Term {
	tt := cur.tt
	w := a.w
	// bring the count to 64 bits (treated as unsigned)
	b64 := tt.ZExt(b, 64)
	if b.w > 64 {
		panic("shift count wider than 64")
	}
	big := tt.Cmp(oUle, tt.Const(uint64(w), 64), b64)
	var cnt *Term
	if w == 64 {
		cnt = b64
	} else {
		cnt = tt.Extract(b64, w-1, 0)
	}
	var res, sat *Term
	switch {
	case op == token.SHL:
		res = tt.Bin(oShl, a, cnt)
		sat = tt.Const(0, w)
	case signed:
		res = tt.Bin(oAShr, a, cnt)
		sat = tt.Bin(oAShr, a, tt.Const(uint64(w-1), w))
	default:
		res = tt.Bin(oLShr, a, cnt)
		sat = tt.Const(0, w)
	}
	return tt.Ite(big, sat, res)
}

func symUnop(op token.Token, t types.Type, x value) value {
	tt := cur.tt
	_, _, kind := typeInfo(t)
	a := lift(x)
	switch op {
	case token.SUB:
		if kind == 'f' {
			return unlift(t, tt.FNeg(a))
		}
		return unlift(t, tt.Neg(a))
	case token.NOT:
		return unlift(t, tt.Not(a))
	case token.XOR:
		return unlift(t, tt.Not(a))
	}
	panic(fmt.Sprintf("symUnop: unsupported %s on %s", op, t))
}

// symConvScalar converts between basic scalar types.
func symConvScalar(t_dst, t_src types.Type, x *Term) value {
	tt := cur.tt
	dw, _, dk := typeInfo(t_dst)
	_, ssigned, sk := typeInfo(t_src)
	switch {
	case sk == 'i' && dk == 'i':
		if dw <= x.w {
			return unlift(t_dst, tt.Extract(x, dw-1, 0))
		}
		if ssigned {
			return unlift(t_dst, tt.SExt(x, dw))
		}
		return unlift(t_dst, tt.ZExt(x, dw))
	case sk == 'i' && dk == 'f':
		return unlift(t_dst, tt.I2F(x, ssigned))
	case sk == 'f' && dk == 'i':
		r := tt.F2I(x)
		if dw < 64 {
			r = tt.Extract(r, dw-1, 0)
		}
		return unlift(t_dst, r)
	case sk == 'f' && dk == 'f':
		return x
	case sk == 'b' && dk == 'b':
		return x
	}
	panic(fmt.Sprintf("symConvScalar: unsupported %s -> %s", t_src, t_dst))
}

// ---- strings ----

func strBinop(op token.Token, x, y value) value {
	if op == token.ADD {
		xb, yb := strBytes(x), strBytes(y)
		out := make([]value, 0, len(xb)+len(yb))
		out = append(out, xb...)
		out = append(out, yb...)
		return normStr(out)
	}
	boolT := types.Typ[types.Bool]
	tt := cur.tt
	switch op {
	case token.EQL:
		return unlift(boolT, strEq(x, y))
	case token.NEQ:
		return unlift(boolT, tt.Not(strEq(x, y)))
	case token.LSS:
		return unlift(boolT, strLess(x, y, false))
	case token.LEQ:
		return unlift(boolT, strLess(x, y, true))
	case token.GTR:
		return unlift(boolT, strLess(y, x, false))
	case token.GEQ:
		return unlift(boolT, strLess(y, x, true))
	}
	panic(fmt.Sprintf("strBinop: unsupported %s", op))
}

func byteEq(a, b value) *Term {
	tt := cur.tt
	ta, aok := a.(*Term)
	tb, bok := b.(*Term)
	if !aok && !bok {
		return tt.Bool(a.(uint8) == b.(uint8))
	}
	if !aok {
		ta = tt.Const(uint64(a.(uint8)), 8)
	}
	if !bok {
		tb = tt.Const(uint64(b.(uint8)), 8)
	}
	if ta.op == oAtom || tb.op == oAtom {
		if ta == tb {
			return tt.tTrue
		}
		if ta.op == oAtom && tb.op == oAtom && ta.name == tb.name && ta.a != nil && tb.a != nil && ta.a.w == tb.a.w {
			return tt.Cmp(oEq, ta.a, tb.a)
		}
		// a formatted scalar never contains layout characters: comparing it
		// with a newline, space or tab is exactly false
		for _, x := range []value{a, b} {
			if c, ok := x.(uint8); ok && (c == '\n' || c == ' ' || c == '\t' || c == '\r') {
				return tt.tFals
			}
		}
		cur.outOfModel("comparison of a formatted symbolic value with text")
		return tt.tFals
	}
	return tt.Cmp(oEq, ta, tb)
}

func strEq(x, y value) *Term {
	tt := cur.tt
	if xs, ok := x.(string); ok {
		if ys, ok := y.(string); ok {
			return tt.Bool(xs == ys)
		}
	}
	xb, yb := strBytes(x), strBytes(y)
	if len(xb) != len(yb) {
		return tt.tFals
	}
	r := tt.tTrue
	for i := range xb {
		r = tt.BAnd(r, byteEq(xb[i], yb[i]))
		if r.op == oFalse {
			return r
		}
	}
	return r
}

func byteTerm(a value) *Term {
	if t, ok := a.(*Term); ok {
		return t
	}
	return cur.tt.Const(uint64(a.(uint8)), 8)
}

// strLess builds x < y (or x <= y) lexicographically.
func strLess(x, y value, orEq bool) *Term {
	tt := cur.tt
	xb, yb := strBytes(x), strBytes(y)
	n := len(xb)
	if len(yb) < n {
		n = len(yb)
	}
	// result for equal common prefix:
	var tail *Term
	if orEq {
		tail = tt.Bool(len(xb) <= len(yb))
	} else {
		tail = tt.Bool(len(xb) < len(yb))
	}
	r := tail
	for i := n - 1; i >= 0; i-- {
		a, b := byteTerm(xb[i]), byteTerm(yb[i])
		lt := tt.Cmp(oUlt, a, b)
		eq := tt.Cmp(oEq, a, b)
		r = tt.BOr(lt, tt.BAnd(eq, r))
	}
	return r
}

// symEquals is equals() returning a possibly symbolic result.
func symEquals(t types.Type, x, y value) value {
	tt := cur.tt
	boolT := types.Typ[types.Bool]
	switch xv := x.(type) {
	case *Term:
		return symBinop(token.EQL, basicTypeOf(t, x, y), x, y)
	case string, sstring:
		return unlift(boolT, strEq(x, y))
	case structure:
		yv := y.(structure)
		tStruct := t.Underlying().(*types.Struct)
		r := tt.tTrue
		for i, n := 0, tStruct.NumFields(); i < n; i++ {
			if f := tStruct.Field(i); f.Name() != "_" {
				r = tt.BAnd(r, lift(symEquals(f.Type(), xv[i], yv[i])))
			}
		}
		return unlift(boolT, r)
	case array:
		yv := y.(array)
		tElt := t.Underlying().(*types.Array).Elem()
		r := tt.tTrue
		for i := range xv {
			r = tt.BAnd(r, lift(symEquals(tElt, xv[i], yv[i])))
		}
		return unlift(boolT, r)
	case iface:
		yv := y.(iface)
		if !sameType(xv.t, yv.t) {
			return false
		}
		if xv.t == nil {
			return true
		}
		if xv.t != rtypeType && xv.t != errorType && !types.Comparable(xv.t) {
			panic(rtPanic("runtime error: comparing uncomparable type " + typeName(xv.t)))
		}
		return symEquals(xv.t, xv.v, yv.v)
	}
	if _, ok := y.(*Term); ok {
		return symBinop(token.EQL, basicTypeOf(t, x, y), x, y)
	}
	if _, ok := y.(sstring); ok {
		return unlift(boolT, strEq(x, y))
	}
	return equals(t, x, y)
}

// basicTypeOf finds a usable basic type for a comparison when t may be an
// interface's dynamic type or a named type.
func basicTypeOf(t types.Type, x, y value) types.Type {
	if _, ok := t.Underlying().(*types.Basic); ok {
		return t
	}
	panic(fmt.Sprintf("basicTypeOf: %s (%T,%T)", t, x, y))
}

// hasSym reports whether a value (shallowly, recursing into aggregates)
// contains symbolic parts.
func hasSym(v value) bool {
	switch x := v.(type) {
	case *Term, sstring:
		return true
	case structure:
		for _, e := range x {
			if hasSym(e) {
				return true
			}
		}
	case array:
		for _, e := range x {
			if hasSym(e) {
				return true
			}
		}
	case iface:
		return hasSym(x.v)
	case tuple:
		for _, e := range x {
			if hasSym(e) {
				return true
			}
		}
	}
	return false
}
