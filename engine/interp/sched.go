package interp

// Cooperative scheduler: interpreted goroutines are real goroutines, but only
// the holder of the baton runs. Channels, select and close are implemented on
// the engine's own channel objects with Go-runtime-like wait queues.

import (
	"fmt"
	"go/token"
	"strings"
	"sync"
	"unsafe"

	"golang.org/x/tools/go/ssa"
)

type gstate int

const (
	gRunnable gstate = iota
	gBlocked
	gDone
)

type goroutineT struct {
	id      int
	wake    chan struct{}
	state   gstate
	ready   func() bool
	what    string
	started bool
	spawnPos string
	lib      bool // started by the code under test (or by such a goroutine)
}

type killedPanic struct{}

type scheduler struct {
	gs        []*goroutineT
	cur       *goroutineT
	trace     []int // scheduling choices made (goroutine ids)
	killed    bool
	finished  chan struct{}
	finOnce   sync.Once
	outcome   string
	detail    string
	wg        sync.WaitGroup
	explore   bool
	filter    string // preemption only at channels created in files matching this
	preemptBudget int
	nextChan  int
	events    []event
	logEvents bool
}

func newScheduler() *scheduler {
	return &scheduler{finished: make(chan struct{})}
}

func (s *scheduler) finish(outcome, detail string) {
	s.finOnce.Do(func() {
		s.outcome, s.detail = outcome, detail
		s.killed = true
		close(s.finished)
	})
}

// spawn registers a new interpreted goroutine running fn.
func (s *scheduler) spawn(fn func(), pos string) *goroutineT {
	g := &goroutineT{id: len(s.gs), wake: make(chan struct{}, 1), state: gRunnable, spawnPos: pos}
	s.gs = append(s.gs, g)
	if s.cur != nil {
		s.logSpawn(s.cur.id, g.id)
	}
	s.wg.Add(1)
	go func() {
		defer s.wg.Done()
		<-g.wake
		if s.killed {
			return
		}
		defer func() {
			r := recover()
			g.state = gDone
			switch p := r.(type) {
			case nil:
				if g.id == 0 {
					s.finish("ok", "")
					return
				}
				s.logEvent(evExit, g.id, nil, "")
				s.exitSwitch()
			case killedPanic:
				return
			case pathAbort:
				s.finish(p.outcome, p.detail)
			case targetPanic:
				s.finish("panic", fmt.Sprintf("goroutine %d: panic: %s", g.id, toString(p.v)))
			case rtPanic:
				s.finish("panic", fmt.Sprintf("goroutine %d: %s", g.id, string(p)))
			case engineBug:
				s.finish("engine-error", fmt.Sprintf("goroutine %d: %s at %s", g.id, string(p), cur.posString()))
			case exitPanic:
				s.finish("exit", fmt.Sprintf("%d", int(p)))
			case error:
				s.finish("panic", fmt.Sprintf("goroutine %d: runtime error: %v", g.id, p))
			case string:
				s.finish("panic", fmt.Sprintf("goroutine %d: %s", g.id, p))
			default:
				s.finish("engine-error", fmt.Sprintf("goroutine %d: unexpected panic %T: %v", g.id, r, r))
			}
		}()
		fn()
	}()
	return g
}

func (s *scheduler) candidates(exclude *goroutineT) []*goroutineT {
	var out []*goroutineT
	for _, g := range s.gs {
		if g == exclude {
			continue
		}
		switch g.state {
		case gRunnable:
			out = append(out, g)
		case gBlocked:
			if g.ready != nil && g.ready() {
				out = append(out, g)
			}
		}
	}
	return out
}

func (s *scheduler) pick(cands []*goroutineT) *goroutineT {
	if len(cands) == 1 || !s.explore {
		return cands[0]
	}
	k := cur.choose(len(cands))
	return cands[k]
}

// switchTo hands the baton to g and parks the caller (unless it is g or done).
func (s *scheduler) switchTo(g *goroutineT, park bool) {
	me := s.cur
	s.trace = append(s.trace, g.id)
	if g == me {
		me.state = gRunnable
		return
	}
	s.cur = g
	g.state = gRunnable
	g.ready = nil
	g.wake <- struct{}{}
	if park {
		<-me.wake
		if s.killed {
			panic(killedPanic{})
		}
	}
}

func (s *scheduler) describe() string {
	var sb strings.Builder
	for _, g := range s.gs {
		st := [...]string{"runnable", "blocked", "done"}[g.state]
		fmt.Fprintf(&sb, "g%d(%s) %s %s; ", g.id, g.spawnPos, st, g.what)
	}
	return sb.String()
}

// block parks the current goroutine until ready() holds.
func (s *scheduler) block(ready func() bool, what string) {
	me := s.cur
	me.state = gBlocked
	me.ready = ready
	me.what = what
	cands := s.candidates(nil)
	if len(cands) == 0 {
		s.finish("deadlock", s.describe())
		panic(killedPanic{})
	}
	s.switchTo(s.pick(cands), true)
	me.what = ""
}

// exitSwitch is called by a finished non-main goroutine.
func (s *scheduler) exitSwitch() {
	cands := s.candidates(nil)
	if len(cands) == 0 {
		s.finish("deadlock", s.describe())
		return
	}
	s.switchTo(s.pick(cands), false)
}

// yield lets other goroutines run if any can (used at scheduling points in
// exploration mode and by Quiesce).
func (s *scheduler) yieldToOthers() bool {
	me := s.cur
	cands := s.candidates(me)
	if len(cands) == 0 {
		return false
	}
	me.state = gRunnable
	s.switchTo(s.pick(cands), true)
	return true
}

// schedPoint is called before every synchronisation operation.
func (s *scheduler) schedPoint() {
	if !s.explore || s.preemptBudget <= 0 {
		return
	}
	me := s.cur
	cands := s.candidates(me)
	if len(cands) == 0 {
		return
	}
	// choice 0 = keep running; k>0 = preempt in favour of cands[k-1]
	k := cur.choose(len(cands) + 1)
	if k == 0 {
		return
	}
	s.preemptBudget--
	me.state = gRunnable
	s.switchTo(cands[k-1], true)
}

// quiesce runs all other goroutines until none can make progress; returns the
// number of goroutines that have not finished.
func (s *scheduler) quiesce() int {
	for s.yieldToOthers() {
	}
	n := 0
	for _, g := range s.gs {
		if g != s.cur && g.state != gDone {
			n++
		}
	}
	return n
}

func (s *scheduler) killAll() {
	s.killed = true
	for _, g := range s.gs {
		select {
		case g.wake <- struct{}{}:
		default:
		}
	}
	s.wg.Wait()
}

// ---- channels ----

type selState struct {
	done    bool
	fired   int
	val     value
	ok      bool
	closedSend bool
}

type waiter struct {
	sel     *selState
	caseIdx int
	val     value
	gid     int
}

type schan struct {
	site   string // creation site (file:line)
	id     int
	cap    int
	buf    []value
	closed bool
	recvq  []*waiter
	sendq  []*waiter
	zero   value
}

func (ch *schan) liveRecv() *waiter {
	for len(ch.recvq) > 0 {
		if w := ch.recvq[0]; !w.sel.done {
			return w
		}
		ch.recvq = ch.recvq[1:]
	}
	return nil
}

func (ch *schan) liveSend() *waiter {
	for len(ch.sendq) > 0 {
		if w := ch.sendq[0]; !w.sel.done {
			return w
		}
		ch.sendq = ch.sendq[1:]
	}
	return nil
}

type scase struct {
	ch   *schan
	send bool
	val  value
}

func (s *scheduler) newChan(capacity int, zero value, site string) *schan {
	s.nextChan++
	return &schan{id: s.nextChan, cap: capacity, zero: zero, site: site}
}

// explorable reports whether preemption is explored at operations on ch.
func (s *scheduler) explorable(ch *schan) bool {
	if ch == nil || s.filter == "" {
		return true
	}
	return strings.Contains(ch.site, s.filter)
}

func (s *scheduler) caseReady(c scase) bool {
	if c.ch == nil {
		return false
	}
	if c.send {
		return c.ch.closed || c.ch.liveRecv() != nil || len(c.ch.buf) < c.ch.cap
	}
	return len(c.ch.buf) > 0 || c.ch.liveSend() != nil || c.ch.closed
}

func (s *scheduler) complete(w *waiter, v value, ok bool) {
	w.sel.done = true
	w.sel.fired = w.caseIdx
	w.sel.val = v
	w.sel.ok = ok
}

func (s *scheduler) execCase(c scase) (value, bool) {
	ch := c.ch
	gid := s.cur.id
	if c.send {
		if ch.closed {
			panic(targetPanic{iface{t: nil, v: "send on closed channel"}})
		}
		if w := ch.liveRecv(); w != nil {
			ch.recvq = ch.recvq[1:]
			s.complete(w, c.val, true)
			s.logEvent(evSend, gid, ch, "")
			s.logEventG(evRecv, w.gid, ch, "")
			return nil, false
		}
		ch.buf = append(ch.buf, c.val)
		s.logEvent(evSend, gid, ch, "")
		return nil, false
	}
	if len(ch.buf) > 0 {
		v := ch.buf[0]
		ch.buf = ch.buf[1:]
		s.logEvent(evRecv, gid, ch, "")
		if w := ch.liveSend(); w != nil {
			ch.sendq = ch.sendq[1:]
			ch.buf = append(ch.buf, w.val)
			s.complete(w, nil, true)
			s.logEventG(evSend, w.gid, ch, "")
		}
		return v, true
	}
	if w := ch.liveSend(); w != nil {
		ch.sendq = ch.sendq[1:]
		v := w.val
		s.complete(w, nil, true)
		s.logEventG(evSend, w.gid, ch, "")
		s.logEvent(evRecv, gid, ch, "")
		return v, true
	}
	if ch.closed {
		s.logEvent(evRecvClosed, gid, ch, "")
		return ch.zero, false
	}
	panic("execCase: case not ready")
}

// selectOp performs a select over cases; returns chosen index (-1 = default).
func (s *scheduler) selectOp(cases []scase, hasDefault bool, what string) (int, value, bool) {
	for _, c := range cases {
		if s.explorable(c.ch) {
			s.schedPoint()
			break
		}
	}
	var ready []int
	for i, c := range cases {
		if s.caseReady(c) {
			ready = append(ready, i)
		}
	}
	if len(ready) > 0 {
		k := 0
		if s.explore && len(ready) > 1 {
			k = cur.choose(len(ready))
		}
		i := ready[k]
		v, ok := s.execCase(cases[i])
		return i, v, ok
	}
	if hasDefault {
		return -1, nil, false
	}
	sel := &selState{}
	for i, c := range cases {
		if c.ch == nil {
			continue
		}
		w := &waiter{sel: sel, caseIdx: i, val: c.val, gid: s.cur.id}
		if c.send {
			c.ch.sendq = append(c.ch.sendq, w)
		} else {
			c.ch.recvq = append(c.ch.recvq, w)
		}
	}
	s.block(func() bool { return sel.done }, what)
	if sel.closedSend {
		panic(targetPanic{iface{t: nil, v: "send on closed channel"}})
	}
	return sel.fired, sel.val, sel.ok
}

func (s *scheduler) send(ch *schan, v value) {
	if ch == nil {
		s.block(func() bool { return false }, "send on nil channel")
	}
	s.selectOp([]scase{{ch: ch, send: true, val: v}}, false, fmt.Sprintf("chan send (ch%d)", ch.id))
}

func (s *scheduler) recv(ch *schan) (value, bool) {
	if ch == nil {
		s.block(func() bool { return false }, "receive from nil channel")
	}
	_, v, ok := s.selectOp([]scase{{ch: ch}}, false, fmt.Sprintf("chan receive (ch%d)", ch.id))
	if !ok {
		return ch.zero, false
	}
	return v, true
}

func (s *scheduler) closeChan(ch *schan) {
	if s.explorable(ch) {
		s.schedPoint()
	}
	if ch == nil {
		panic(targetPanic{iface{t: nil, v: "close of nil channel"}})
	}
	if ch.closed {
		panic(targetPanic{iface{t: nil, v: "close of closed channel"}})
	}
	ch.closed = true
	s.logEvent(evClose, s.cur.id, ch, "")
	for {
		w := ch.liveRecv()
		if w == nil {
			break
		}
		ch.recvq = ch.recvq[1:]
		s.complete(w, ch.zero, false)
		s.logEventG(evRecvClosed, w.gid, ch, "")
	}
	for {
		w := ch.liveSend()
		if w == nil {
			break
		}
		ch.sendq = ch.sendq[1:]
		w.sel.closedSend = true
		s.complete(w, nil, false)
	}
}

// ---- event log (used by the race analysis) ----

type evKind uint8

const (
	evRead evKind = iota
	evWrite
	evSend
	evRecv
	evRecvClosed
	evClose
	evSpawn
	evStart
	evExit
	evLock
	evUnlock
	evRLock
	evRUnlock
)

type event struct {
	kind   evKind
	g      int
	obj    uintptr // cell / mutex identity
	ch     *schan
	pos    token.Pos
	fn     *ssa.Function
	aux    int
	target bool // the access is made by code of the package under test
}

func (s *scheduler) logEvent(k evKind, g int, ch *schan, pos string) {
	s.logEventG(k, g, ch, pos)
}

func (s *scheduler) logEventG(k evKind, g int, ch *schan, pos string) {
	if !s.logEvents {
		return
	}
	s.events = append(s.events, event{kind: k, g: g, ch: ch})
}

func (s *scheduler) logSpawn(parent, child int) {
	if !s.logEvents {
		return
	}
	s.events = append(s.events, event{kind: evSpawn, g: parent, aux: child})
}

func (s *scheduler) logAccess(k evKind, cell *value) {
	if !s.logEvents || s.cur == nil {
		return
	}
	s.events = append(s.events, event{kind: k, g: s.cur.id, obj: uintptr(unsafe.Pointer(cell)), pos: cur.curPos, fn: cur.curFn, target: s.cur.lib || (cur.curFn != nil && inTargetPkg(cur.curFn))})
}

func (s *scheduler) logObj(k evKind, obj unsafe.Pointer) {
	if !s.logEvents || s.cur == nil {
		return
	}
	s.events = append(s.events, event{kind: k, g: s.cur.id, obj: uintptr(obj), pos: cur.curPos, fn: cur.curFn, target: s.cur.lib || (cur.curFn != nil && inTargetPkg(cur.curFn))})
}

func (s *scheduler) logLock(k evKind, cell *value) {
	if !s.logEvents || s.cur == nil {
		return
	}
	s.events = append(s.events, event{kind: k, g: s.cur.id, obj: uintptr(unsafe.Pointer(cell)), pos: cur.curPos})
}
