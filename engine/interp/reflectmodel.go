package interp

// Model of the part of package reflect that bcl's Bind uses, over go/types.
// reflect.Value is represented as structure{rtype{t}, *rvalue}; the zero
// reflect.Value (two nil interfaces) and rtype{nil} are the invalid Value.
// reflect's documented panics are reproduced, because "Bind never panics" is
// one of the properties decided through this model.

import (
	"fmt"
	"go/types"
	"reflect"

	"golang.org/x/tools/go/ssa"
)

type rvalue struct {
	addr *value // non-nil: addressable
	v    value  // used when not addressable
	ro   bool   // obtained through an unexported field
}

func rvGet(t types.Type, r *rvalue) value {
	if r.addr != nil {
		return load(t, r.addr)
	}
	return r.v
}

func mkRV(t types.Type, r *rvalue) value { return structure{rtype{t}, r} }

var invalidRV = structure{rtype{nil}, (*rvalue)(nil)}

// rvParts decodes a reflect.Value.
func rvParts(v value) (types.Type, *rvalue, bool) {
	s, ok := v.(structure)
	if !ok || len(s) != 2 {
		return nil, nil, false
	}
	rt, ok := s[0].(rtype)
	if !ok || rt.t == nil {
		return nil, nil, false
	}
	r, _ := s[1].(*rvalue)
	if r == nil {
		return nil, nil, false
	}
	return rt.t, r, true
}

func reflectPanic(msg string) {
	panic(targetPanic{iface{t: types.Typ[types.String], v: msg}})
}

func kindName(t types.Type) string {
	if t == nil {
		return "invalid"
	}
	return reflectKind(t).String()
}

func mustValid(v value, method string) (types.Type, *rvalue) {
	t, r, ok := rvParts(v)
	if !ok {
		reflectPanic("reflect: call of " + method + " on zero Value")
	}
	return t, r
}

func isExportedField(f *types.Var) bool { return f.Exported() }

func structFieldValue(st *types.Struct, i int, index []int) value {
	f := st.Field(i)
	pkgPath := ""
	if !f.Exported() && f.Pkg() != nil {
		pkgPath = f.Pkg().Path()
	}
	idx := make([]value, len(index))
	for k, x := range index {
		idx[k] = x
	}
	return structure{
		f.Name(),
		pkgPath,
		makeReflectType(rtype{f.Type()}),
		st.Tag(i),
		uintptr(0),
		idx,
		f.Embedded(),
	}
}

func initReflectModel(i *interpreter) {
	for _, name := range []string{"Name", "FieldByNameFunc", "AssignableTo", "PkgPath", "Len", "Comparable", "FieldByName", "ConvertibleTo"} {
		i.rtypeMethods[name] = newMethod(i.reflectPackage, rtypeType, name)
	}
}

func init() {
	for k, v := range map[string]extFn2{
		"reflect.ValueOf": func(fr *frame, a []value) (value, bool) {
			itf := a[0].(iface)
			if itf.t == nil {
				return invalidRV, true
			}
			return mkRV(itf.t, &rvalue{v: itf.v}), true
		},
		"reflect.TypeOf": func(fr *frame, a []value) (value, bool) {
			itf := a[0].(iface)
			if itf.t == nil {
				return iface{}, true
			}
			return makeReflectType(rtype{itf.t}), true
		},
		"reflect.MakeSlice": func(fr *frame, a []value) (value, bool) {
			t := a[0].(iface).v.(rtype).t
			st, ok := t.Underlying().(*types.Slice)
			if !ok {
				reflectPanic("reflect.MakeSlice of non-slice type")
			}
			n, c := int(concInt(a[1], "MakeSlice len")), int(concInt(a[2], "MakeSlice cap"))
			if n < 0 || c < n {
				reflectPanic("reflect.MakeSlice: len out of range")
			}
			s := make([]value, c)
			for k := range s {
				s[k] = zero(st.Elem())
			}
			return mkRV(t, &rvalue{v: s[:n]}), true
		},
		"(reflect.Kind).String": func(fr *frame, a []value) (value, bool) {
			return reflect.Kind(asInt64(a[0])).String(), true
		},
		"(reflect.Value).IsValid": func(fr *frame, a []value) (value, bool) {
			_, _, ok := rvParts(a[0])
			return ok, true
		},
		"(reflect.Value).Kind": func(fr *frame, a []value) (value, bool) {
			t, _, ok := rvParts(a[0])
			if !ok {
				return uint(reflect.Invalid), true
			}
			return uint(reflectKind(t)), true
		},
		"(reflect.Value).Type": func(fr *frame, a []value) (value, bool) {
			t, _ := mustValid(a[0], "reflect.Value.Type")
			return makeReflectType(rtype{t}), true
		},
		"(reflect.Value).Elem": func(fr *frame, a []value) (value, bool) {
			t, r := mustValid(a[0], "reflect.Value.Elem")
			switch ut := t.Underlying().(type) {
			case *types.Pointer:
				p, _ := rvGet(t, r).(*value)
				if p == nil {
					return invalidRV, true
				}
				return mkRV(ut.Elem(), &rvalue{addr: p, ro: r.ro}), true
			case *types.Interface:
				x := rvGet(t, r).(iface)
				if x.t == nil {
					return invalidRV, true
				}
				return mkRV(x.t, &rvalue{v: x.v, ro: r.ro}), true
			}
			reflectPanic("reflect: call of reflect.Value.Elem on " + kindName(t) + " Value")
			return nil, true
		},
		"(reflect.Value).Index": func(fr *frame, a []value) (value, bool) {
			t, r := mustValid(a[0], "reflect.Value.Index")
			i := int(concInt(a[1], "Index"))
			switch ut := t.Underlying().(type) {
			case *types.Slice:
				s := rvGet(t, r).([]value)
				if i < 0 || i >= len(s) {
					reflectPanic("reflect: slice index out of range")
				}
				return mkRV(ut.Elem(), &rvalue{addr: &s[i], ro: r.ro}), true
			case *types.Array:
				if r.addr != nil {
					arr := (*r.addr).(array)
					if i < 0 || i >= len(arr) {
						reflectPanic("reflect: array index out of range")
					}
					return mkRV(ut.Elem(), &rvalue{addr: &arr[i], ro: r.ro}), true
				}
				arr := r.v.(array)
				if i < 0 || i >= len(arr) {
					reflectPanic("reflect: array index out of range")
				}
				return mkRV(ut.Elem(), &rvalue{v: arr[i], ro: r.ro}), true
			}
			reflectPanic("reflect: call of reflect.Value.Index on " + kindName(t) + " Value")
			return nil, true
		},
		"(reflect.Value).Len": func(fr *frame, a []value) (value, bool) {
			t, r := mustValid(a[0], "reflect.Value.Len")
			switch x := rvGet(t, r).(type) {
			case []value:
				return len(x), true
			case array:
				return len(x), true
			case string:
				return len(x), true
			case sstring:
				return len(x), true
			case *omap:
				return x.len(), true
			}
			reflectPanic("reflect: call of reflect.Value.Len on " + kindName(t) + " Value")
			return nil, true
		},
		"(reflect.Value).NumField": func(fr *frame, a []value) (value, bool) {
			t, _ := mustValid(a[0], "reflect.Value.NumField")
			st, ok := t.Underlying().(*types.Struct)
			if !ok {
				reflectPanic("reflect: call of reflect.Value.NumField on " + kindName(t) + " Value")
			}
			return st.NumFields(), true
		},
		"(reflect.Value).Field": func(fr *frame, a []value) (value, bool) {
			t, r := mustValid(a[0], "reflect.Value.Field")
			st, ok := t.Underlying().(*types.Struct)
			if !ok {
				reflectPanic("reflect: call of reflect.Value.Field on " + kindName(t) + " Value")
			}
			i := int(concInt(a[1], "Field"))
			if i < 0 || i >= st.NumFields() {
				reflectPanic("reflect: Field index out of range")
			}
			f := st.Field(i)
			ro := r.ro || !f.Exported()
			if r.addr != nil {
				return mkRV(f.Type(), &rvalue{addr: &(*r.addr).(structure)[i], ro: ro}), true
			}
			return mkRV(f.Type(), &rvalue{v: r.v.(structure)[i], ro: ro}), true
		},
		"(reflect.Value).FieldByIndexErr": func(fr *frame, a []value) (value, bool) {
			t, r := mustValid(a[0], "reflect.Value.FieldByIndexErr")
			idx := a[1].([]value)
			for k, iv := range idx {
				i := int(concInt(iv, "FieldByIndex"))
				if k > 0 {
					if pt, ok := t.Underlying().(*types.Pointer); ok {
						if _, isStruct := pt.Elem().Underlying().(*types.Struct); isStruct {
							p, _ := rvGet(t, r).(*value)
							if p == nil {
								errPkg := fr.i.prog.ImportedPackage("errors")
								e := callSSA(fr.i, fr, 0, errPkg.Func("New"), []value{"reflect: indirection through nil pointer to embedded struct field " + typeName(pt.Elem())}, nil)
								return tuple{invalidRV, e}, true
							}
							t, r = pt.Elem(), &rvalue{addr: p, ro: r.ro}
						}
					}
				}
				st, ok := t.Underlying().(*types.Struct)
				if !ok {
					reflectPanic("reflect: call of reflect.Value.Field on " + kindName(t) + " Value")
				}
				if i < 0 || i >= st.NumFields() {
					reflectPanic("reflect: Field index out of range")
				}
				f := st.Field(i)
				ro := r.ro || !f.Exported()
				if r.addr != nil {
					t, r = f.Type(), &rvalue{addr: &(*r.addr).(structure)[i], ro: ro}
				} else {
					t, r = f.Type(), &rvalue{v: r.v.(structure)[i], ro: ro}
				}
			}
			return tuple{mkRV(t, r), iface{}}, true
		},
		"(reflect.Value).Cap": func(fr *frame, a []value) (value, bool) {
			t, r := mustValid(a[0], "reflect.Value.Cap")
			switch x := rvGet(t, r).(type) {
			case []value:
				return cap(x), true
			case array:
				return len(x), true
			}
			reflectPanic("reflect: call of reflect.Value.Cap on " + kindName(t) + " Value")
			return nil, true
		},
		"(reflect.Value).Slice": func(fr *frame, a []value) (value, bool) {
			t, r := mustValid(a[0], "reflect.Value.Slice")
			i, j := int(concInt(a[1], "Slice")), int(concInt(a[2], "Slice"))
			switch x := rvGet(t, r).(type) {
			case []value:
				if i < 0 || j < i || j > cap(x) {
					reflectPanic("reflect.Value.Slice: slice index out of bounds")
				}
				return mkRV(t, &rvalue{v: x[i:j], ro: r.ro}), true
			case string:
				if i < 0 || j < i || j > len(x) {
					reflectPanic("reflect.Value.Slice: string slice index out of bounds")
				}
				return mkRV(t, &rvalue{v: x[i:j], ro: r.ro}), true
			}
			reflectPanic("reflect: call of reflect.Value.Slice on " + kindName(t) + " Value")
			return nil, true
		},
		"(reflect.Value).SetLen": func(fr *frame, a []value) (value, bool) {
			t, r := mustValid(a[0], "reflect.Value.SetLen")
			if r.addr == nil || r.ro {
				reflectPanic("reflect: reflect.Value.SetLen using unaddressable value")
			}
			x, ok := rvGet(t, r).([]value)
			n := int(concInt(a[1], "SetLen"))
			if !ok {
				reflectPanic("reflect: call of reflect.Value.SetLen on " + kindName(t) + " Value")
			}
			if n < 0 || n > cap(x) {
				reflectPanic("reflect: slice length out of range in SetLen")
			}
			store(t, r.addr, x[:n])
			return nil, true
		},
		"(reflect.Value).SetZero": func(fr *frame, a []value) (value, bool) {
			t, r := mustValid(a[0], "reflect.Value.SetZero")
			if r.addr == nil {
				reflectPanic("reflect: reflect.Value.SetZero using unaddressable value")
			}
			if r.ro {
				reflectPanic("reflect: reflect.Value.SetZero using value obtained using unexported field")
			}
			store(t, r.addr, zero(t))
			return nil, true
		},
		"(reflect.Value).IsZero": func(fr *frame, a []value) (value, bool) {
			t, r := mustValid(a[0], "reflect.Value.IsZero")
			v := rvGet(t, r)
			switch v.(type) {
			case []value:
				return v.([]value) == nil, true
			case *omap:
				return v.(*omap) == nil, true
			}
			return truth(symEquals(t, v, zero(t))), true
		},
		"(reflect.Value).CanConvert": func(fr *frame, a []value) (value, bool) {
			t, _ := mustValid(a[0], "reflect.Value.CanConvert")
			return types.ConvertibleTo(t, a[1].(iface).v.(rtype).t), true
		},
		"(reflect.Value).Convert": func(fr *frame, a []value) (value, bool) {
			t, r := mustValid(a[0], "reflect.Value.Convert")
			dst := a[1].(iface).v.(rtype).t
			if !types.ConvertibleTo(t, dst) {
				reflectPanic("reflect.Value.Convert: value of type " + typeName(t) + " cannot be converted to type " + typeName(dst))
			}
			v := rvGet(t, r)
			_, sb := t.Underlying().(*types.Basic)
			_, db := dst.Underlying().(*types.Basic)
			if sb && db {
				return mkRV(dst, &rvalue{v: conv(dst, t, v), ro: r.ro}), true
			}
			if _, isIface := dst.Underlying().(*types.Interface); isIface {
				if _, srcIface := t.Underlying().(*types.Interface); !srcIface {
					v = iface{t: t, v: v}
				}
				return mkRV(dst, &rvalue{v: v, ro: r.ro}), true
			}
			return mkRV(dst, &rvalue{v: v, ro: r.ro}), true
		},
		"(reflect.rtype).ConvertibleTo": func(fr *frame, a []value) (value, bool) {
			return types.ConvertibleTo(a[0].(rtype).t, a[1].(iface).v.(rtype).t), true
		},
		"reflect.Zero": func(fr *frame, a []value) (value, bool) {
			t := a[0].(iface).v.(rtype).t
			return mkRV(t, &rvalue{v: zero(t)}), true
		},
		"reflect.New": func(fr *frame, a []value) (value, bool) {
			t := a[0].(iface).v.(rtype).t
			cell := zero(t)
			return mkRV(types.NewPointer(t), &rvalue{v: &cell}), true
		},
		"reflect.Append": func(fr *frame, a []value) (value, bool) {
			t, r := mustValid(a[0], "reflect.Append")
			x, ok := rvGet(t, r).([]value)
			if !ok {
				reflectPanic("reflect.Append: not a slice")
			}
			for _, e := range a[1].([]value) {
				et, er := mustValid(e, "reflect.Append")
				x = append(x, rvGet(et, er))
			}
			return mkRV(t, &rvalue{v: x}), true
		},
		"reflect.Copy": func(fr *frame, a []value) (value, bool) {
			dt, dr := mustValid(a[0], "reflect.Copy")
			st, sr := mustValid(a[1], "reflect.Copy")
			d, ok1 := rvGet(dt, dr).([]value)
			sv, ok2 := rvGet(st, sr).([]value)
			if !ok1 || !ok2 {
				reflectPanic("reflect.Copy: not slices")
			}
			return copy(d, sv), true
		},
		"(reflect.Value).CanSet": func(fr *frame, a []value) (value, bool) {
			_, r, ok := rvParts(a[0])
			return ok && r.addr != nil && !r.ro, true
		},
		"(reflect.Value).CanAddr": func(fr *frame, a []value) (value, bool) {
			_, r, ok := rvParts(a[0])
			return ok && r.addr != nil, true
		},
		"(reflect.Value).Set": func(fr *frame, a []value) (value, bool) {
			t, r := mustValid(a[0], "reflect.Value.Set")
			if r.addr == nil {
				reflectPanic("reflect: reflect.Value.Set using unaddressable value")
			}
			if r.ro {
				reflectPanic("reflect: reflect.Value.Set using value obtained using unexported field")
			}
			xt, xr, ok := rvParts(a[1])
			if !ok {
				reflectPanic("reflect: call of reflect.Value.Set on zero Value")
			}
			if xr.ro {
				reflectPanic("reflect: reflect.Value.Set using value obtained using unexported field")
			}
			if !types.AssignableTo(xt, t) {
				reflectPanic("reflect.Set: value of type " + typeName(xt) + " is not assignable to type " + typeName(t))
			}
			xv := rvGet(xt, xr)
			if _, isIface := t.Underlying().(*types.Interface); isIface {
				if _, srcIface := xt.Underlying().(*types.Interface); !srcIface {
					xv = iface{t: xt, v: xv}
				}
			}
			store(t, r.addr, xv)
			return nil, true
		},
		"(reflect.Value).Interface": func(fr *frame, a []value) (value, bool) {
			t, r := mustValid(a[0], "reflect.Value.Interface")
			if r.ro {
				reflectPanic("reflect.Value.Interface: cannot return value obtained from unexported field or method")
			}
			v := rvGet(t, r)
			if _, isIface := t.Underlying().(*types.Interface); isIface {
				return v, true
			}
			return iface{t: t, v: v}, true
		},
		"(reflect.Value).IsNil": func(fr *frame, a []value) (value, bool) {
			t, r := mustValid(a[0], "reflect.Value.IsNil")
			switch x := rvGet(t, r).(type) {
			case *value:
				return x == nil, true
			case []value:
				return x == nil, true
			case *omap:
				return x == nil, true
			case iface:
				return x.t == nil, true
			case *schan:
				return x == nil, true
			case *ssa.Function:
				return x == nil, true
			case *closure:
				return x == nil, true
			}
			reflectPanic("reflect: call of reflect.Value.IsNil on " + kindName(t) + " Value")
			return nil, true
		},
		"(reflect.Value).Int": func(fr *frame, a []value) (value, bool) {
			t, r := mustValid(a[0], "reflect.Value.Int")
			v := rvGet(t, r)
			if tt, ok := v.(*Term); ok {
				return symConvScalar(types.Typ[types.Int64], t, tt), true
			}
			return asInt64(v), true
		},
		"(reflect.Value).String": func(fr *frame, a []value) (value, bool) {
			t, r, ok := rvParts(a[0])
			if !ok {
				return "<invalid Value>", true
			}
			v := rvGet(t, r)
			if isStringVal(v) {
				return v, true
			}
			return "<" + typeName(t) + " Value>", true
		},
		"(reflect.Value).Bool": func(fr *frame, a []value) (value, bool) {
			t, r := mustValid(a[0], "reflect.Value.Bool")
			return rvGet(t, r), true
		},
		"(reflect.Value).Float": func(fr *frame, a []value) (value, bool) {
			t, r := mustValid(a[0], "reflect.Value.Float")
			return rvGet(t, r), true
		},

		"(reflect.rtype).Kind": func(fr *frame, a []value) (value, bool) {
			return uint(reflectKind(a[0].(rtype).t)), true
		},
		"(reflect.rtype).Name": func(fr *frame, a []value) (value, bool) {
			switch t := a[0].(rtype).t.(type) {
			case *types.Named:
				return t.Obj().Name(), true
			case *types.Basic:
				return t.Name(), true
			case *types.Alias:
				return t.Obj().Name(), true
			}
			return "", true
		},
		"(reflect.rtype).PkgPath": func(fr *frame, a []value) (value, bool) {
			if t, ok := a[0].(rtype).t.(*types.Named); ok && t.Obj().Pkg() != nil {
				return t.Obj().Pkg().Path(), true
			}
			return "", true
		},
		"(reflect.rtype).String": func(fr *frame, a []value) (value, bool) {
			return typeName(a[0].(rtype).t), true
		},
		"(reflect.rtype).Elem": func(fr *frame, a []value) (value, bool) {
			switch t := a[0].(rtype).t.Underlying().(type) {
			case *types.Pointer:
				return makeReflectType(rtype{t.Elem()}), true
			case *types.Slice:
				return makeReflectType(rtype{t.Elem()}), true
			case *types.Array:
				return makeReflectType(rtype{t.Elem()}), true
			case *types.Map:
				return makeReflectType(rtype{t.Elem()}), true
			case *types.Chan:
				return makeReflectType(rtype{t.Elem()}), true
			}
			reflectPanic("reflect: Elem of invalid type " + typeName(a[0].(rtype).t))
			return nil, true
		},
		"(reflect.rtype).NumField": func(fr *frame, a []value) (value, bool) {
			st, ok := a[0].(rtype).t.Underlying().(*types.Struct)
			if !ok {
				reflectPanic("reflect: NumField of non-struct type " + typeName(a[0].(rtype).t))
			}
			return st.NumFields(), true
		},
		"(reflect.rtype).Field": func(fr *frame, a []value) (value, bool) {
			st, ok := a[0].(rtype).t.Underlying().(*types.Struct)
			if !ok {
				reflectPanic("reflect: Field of non-struct type " + typeName(a[0].(rtype).t))
			}
			i := int(concInt(a[1], "Field"))
			if i < 0 || i >= st.NumFields() {
				reflectPanic("reflect: Field index out of bounds")
			}
			return structFieldValue(st, i, []int{i}), true
		},
		"(reflect.rtype).AssignableTo": func(fr *frame, a []value) (value, bool) {
			u := a[1].(iface)
			if u.t == nil {
				reflectPanic("reflect: nil type passed to Type.AssignableTo")
			}
			return types.AssignableTo(a[0].(rtype).t, u.v.(rtype).t), true
		},
		"(reflect.rtype).Comparable": func(fr *frame, a []value) (value, bool) {
			return types.Comparable(a[0].(rtype).t), true
		},
		"(reflect.rtype).FieldByNameFunc": func(fr *frame, a []value) (value, bool) {
			t := a[0].(rtype).t
			st, ok := t.Underlying().(*types.Struct)
			if !ok {
				reflectPanic("reflect: FieldByNameFunc of non-struct type " + typeName(t))
			}
			match := func(name string) bool {
				return truth(call(fr.i, fr, 0, a[1], []value{name}))
			}
			sf, found := fieldByNameFunc(st, match)
			if !found {
				return tuple{zeroStructField(fr), false}, true
			}
			return tuple{sf, true}, true
		},
	} {
		models[k] = v
		delete(externals, k)
	}
}

func zeroStructField(fr *frame) value {
	return structure{"", "", iface{}, "", uintptr(0), []value(nil), false}
}

// fieldByNameFunc implements reflect's breadth-first search with promotion
// through embedded structs and cancellation of ambiguous matches.
func fieldByNameFunc(st *types.Struct, match func(string) bool) (value, bool) {
	type scan struct {
		st    *types.Struct
		index []int
	}
	current := []scan{}
	next := []scan{{st: st}}
	visited := map[*types.Struct]bool{}
	for len(next) > 0 {
		current, next = next, nil
		var result value
		count := 0
		for _, sc := range current {
			if visited[sc.st] {
				continue
			}
			visited[sc.st] = true
			for i := 0; i < sc.st.NumFields(); i++ {
				f := sc.st.Field(i)
				name := f.Name()
				var ntyp types.Type
				if f.Embedded() {
					ntyp = f.Type()
					if p, ok := ntyp.Underlying().(*types.Pointer); ok {
						ntyp = p.Elem()
					}
				}
				if match(name) {
					count++
					if count == 1 {
						idx := append(append([]int(nil), sc.index...), i)
						result = structFieldValue(sc.st, i, idx)
					}
					continue
				}
				if count > 0 || ntyp == nil {
					continue
				}
				if est, ok := ntyp.Underlying().(*types.Struct); ok {
					next = append(next, scan{st: est, index: append(append([]int(nil), sc.index...), i)})
				}
			}
		}
		if count == 1 {
			return result, true
		}
		if count > 1 {
			return nil, false
		}
	}
	return nil, false
}

var _ = fmt.Sprintf
