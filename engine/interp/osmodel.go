package interp

// Model of the small part of package os that cmd/bcl uses, over an in-memory
// file table supplied by the harness through verif.RunCmd: os.Args, the three
// standard streams, os.Open, os.Create, (*os.File).Read/Write/Close/Name and
// os.Exit. The process boundary and the real file system are not encoded.

import (
	"fmt"
	"go/types"
	"sort"

	"golang.org/x/tools/go/ssa"
)

type memFile struct {
	name   string
	data   []value
	pos    int
	closed bool
	write  bool
}

type osState struct {
	files          map[string][]value // file table: name -> content
	open           map[*value]*memFile
	stdin          *value
	stdout, stderr *value
}

func (c *pathCtx) newOSFile(fr *frame, mf *memFile) *value {
	var inner value = structure{} // os.file is opaque here
	var cell value = structure{&inner}
	p := &cell
	c.os.open[p] = mf
	return p
}

func osFileOf(v value) *memFile {
	p, ok := v.(*value)
	if !ok || p == nil || cur.os == nil {
		return nil
	}
	return cur.os.open[p]
}

func goError(fr *frame, msg string) value {
	errPkg := fr.i.prog.ImportedPackage("errors")
	return callSSA(fr.i, fr, 0, errPkg.Func("New"), []value{msg}, nil)
}

func init() {
	for k, v := range map[string]extFn2{
		verifPkg + "RunCmd": mRunCmd,
		"os.Open": func(fr *frame, a []value) (value, bool) {
			if cur.os == nil {
				return nil, false
			}
			name := concStr(a[0])
			data, ok := cur.os.files[name]
			if !ok {
				return tuple{(*value)(nil), goError(fr, "open "+name+": no such file or directory")}, true
			}
			return tuple{cur.newOSFile(fr, &memFile{name: name, data: data}), iface{}}, true
		},
		"os.Create": func(fr *frame, a []value) (value, bool) {
			if cur.os == nil {
				return nil, false
			}
			name := concStr(a[0])
			if name == "" {
				return tuple{(*value)(nil), goError(fr, "open : no such file or directory")}, true
			}
			cur.os.files[name] = nil
			return tuple{cur.newOSFile(fr, &memFile{name: name, write: true}), iface{}}, true
		},
		"os.Remove": func(fr *frame, a []value) (value, bool) {
			if cur.os == nil {
				return nil, false
			}
			name := concStr(a[0])
			if _, ok := cur.os.files[name]; !ok {
				return goError(fr, "remove "+name+": no such file or directory"), true
			}
			delete(cur.os.files, name)
			return iface{}, true
		},
		"os.Rename": func(fr *frame, a []value) (value, bool) {
			if cur.os == nil {
				return nil, false
			}
			from, to := concStr(a[0]), concStr(a[1])
			data, ok := cur.os.files[from]
			if !ok {
				return goError(fr, "rename "+from+" "+to+": no such file or directory"), true
			}
			delete(cur.os.files, from)
			cur.os.files[to] = data
			return iface{}, true
		},
		"(*os.File).Name": func(fr *frame, a []value) (value, bool) {
			mf := osFileOf(a[0])
			if mf == nil {
				return nil, false
			}
			return mf.name, true
		},
		"(*os.File).Read": func(fr *frame, a []value) (value, bool) {
			mf := osFileOf(a[0])
			if mf == nil {
				if p, _ := a[0].(*value); p == nil {
					return tuple{0, goError(fr, "invalid argument")}, true
				}
				return nil, false
			}
			if mf.closed {
				return tuple{0, goError(fr, "read "+mf.name+": file already closed")}, true
			}
			b := a[1].([]value)
			if mf.pos >= len(mf.data) {
				if len(b) == 0 {
					return tuple{0, iface{}}, true
				}
				eof := load(types.Universe.Lookup("error").Type(), fr.i.globals[fr.i.prog.ImportedPackage("io").Var("EOF")])
				return tuple{0, eof}, true
			}
			n := copy(b, mf.data[mf.pos:])
			mf.pos += n
			return tuple{n, iface{}}, true
		},
		"(*os.File).Write": func(fr *frame, a []value) (value, bool) {
			mf := osFileOf(a[0])
			if mf == nil {
				if p, _ := a[0].(*value); p == nil {
					return tuple{0, goError(fr, "invalid argument")}, true
				}
				return nil, false
			}
			if mf.closed {
				return tuple{0, goError(fr, "write "+mf.name+": file already closed")}, true
			}
			b := a[1].([]value)
			if mf.name == "/dev/full" {
				return tuple{0, goError(fr, "write /dev/full: no space left on device")}, true
			}
			mf.data = append(mf.data, b...)
			if mf.write {
				cur.os.files[mf.name] = mf.data
			}
			return tuple{len(b), iface{}}, true
		},
		"(*os.File).Close": func(fr *frame, a []value) (value, bool) {
			mf := osFileOf(a[0])
			if mf == nil {
				if p, _ := a[0].(*value); p == nil {
					return goError(fr, "invalid argument"), true
				}
				return nil, false
			}
			if mf.closed {
				return goError(fr, "close "+mf.name+": file already closed"), true
			}
			mf.closed = true
			return iface{}, true
		},
	} {
		models[k] = v
	}
}

// mRunCmd(args []string, stdin string, names []string, contents []string)
// runs cmd/bcl's main under the os model and returns
// (status int, stdout, stderr string, outNames []string, outContents []string).
func mRunCmd(fr *frame, a []value) (value, bool) {
	i := fr.i
	var mainPkg *ssa.Package
	for _, p := range i.prog.AllPackages() {
		if p.Pkg.Path() == targetPkgPath+"/cmd/bcl" {
			mainPkg = p
		}
	}
	if mainPkg == nil {
		panic(engineBug("cmd/bcl is not loaded"))
	}
	osPkg := i.prog.ImportedPackage("os")
	args := a[0].([]value)
	st := &osState{files: map[string][]value{}, open: map[*value]*memFile{}}
	names, contents := a[2].([]value), a[3].([]value)
	for k := range names {
		st.files[concStr(names[k])] = strBytes(contents[k])
	}
	saved := cur.os
	cur.os = st
	st.stdin = cur.newOSFile(fr, &memFile{name: "/dev/stdin", data: strBytes(a[1])})
	outF := &memFile{name: "/dev/stdout"}
	errF := &memFile{name: "/dev/stderr"}
	st.stdout = cur.newOSFile(fr, outF)
	st.stderr = cur.newOSFile(fr, errF)
	setGlobal := func(name string, v value) {
		*i.globals[osPkg.Var(name)] = v
	}
	osArgs := []value{"bcl"}
	osArgs = append(osArgs, args...)
	cur.inInit = true // the os model's own globals are not library state
	setGlobal("Args", osArgs)
	setGlobal("Stdin", st.stdin)
	setGlobal("Stdout", st.stdout)
	setGlobal("Stderr", st.stderr)
	// a fresh process: the command's own package variables are zeroed and
	// its initialisers run again (imported packages keep their state: their
	// init guards are set)
	for _, mem := range mainPkg.Members {
		if g, ok := mem.(*ssa.Global); ok {
			*i.globals[g] = zero(mustDeref(g.Type()))
		}
	}
	if initFn := mainPkg.Func("init"); initFn != nil {
		call(i, fr, 0, initFn, nil)
	}
	cur.inInit = false
	status := 0
	func() {
		defer func() {
			if r := recover(); r != nil {
				if e, ok := r.(exitPanic); ok {
					status = int(e)
					return
				}
				panic(r)
			}
		}()
		call(i, fr, 0, mainPkg.Func("main"), nil)
	}()
	cur.os = saved
	var outNames []string
	for n := range st.files {
		outNames = append(outNames, n)
	}
	sort.Strings(outNames)
	var on, oc []value
	for _, n := range outNames {
		on = append(on, n)
		oc = append(oc, normStr(append([]value(nil), st.files[n]...)))
	}
	return tuple{status, normStr(outF.data), normStr(errF.data), on, oc}, true
}

var _ = fmt.Sprintf
