package interp

// Symbolic terms: a hash-consed DAG of bit-vector / Boolean expressions.
// Width 0 means Bool; otherwise the term is a (_ BitVec w).
// float64 values are carried as their 64-bit IEEE pattern; the F* operators
// convert through ((_ to_fp 11 53) bits) and back with fp.to_ieee_bv.

import (
	"fmt"
	"math"
	"math/bits"
	"strings"
)

type opKind uint8

const (
	oVar opKind = iota
	oConst
	oTrue
	oFalse
	oAdd
	oSub
	oMul
	oUDiv
	oURem
	oSDiv
	oSRem
	oAnd
	oOr
	oXor
	oNot // bitwise not (bv) / logical not (bool)
	oNeg
	oShl
	oLShr
	oAShr
	oExtract // k = hi<<8|lo
	oZExt    // to width w
	oSExt    // to width w
	oConcat
	oIte
	oEq
	oUlt
	oUle
	oSlt
	oSle
	oBAnd // boolean and
	oBOr
	oFAdd
	oFSub
	oFMul
	oFDiv
	oFNeg
	oFEq
	oFLt
	oFLe
	oI2F   // signed bv64 -> float bits
	oU2F   // unsigned bv64 -> float bits
	oF2I   // float bits -> signed bv64 (RTZ), unspecified when out of range
	oFIsNaN
	oAtom // opaque formatting atom (never sent to the solver)
)

var opNames = [...]string{
	oVar: "var", oConst: "const", oTrue: "true", oFalse: "false",
	oAdd: "bvadd", oSub: "bvsub", oMul: "bvmul", oUDiv: "bvudiv", oURem: "bvurem",
	oSDiv: "bvsdiv", oSRem: "bvsrem", oAnd: "bvand", oOr: "bvor", oXor: "bvxor",
	oNot: "not", oNeg: "bvneg", oShl: "bvshl", oLShr: "bvlshr", oAShr: "bvashr",
	oExtract: "extract", oZExt: "zext", oSExt: "sext", oConcat: "concat", oIte: "ite",
	oEq: "=", oUlt: "bvult", oUle: "bvule", oSlt: "bvslt", oSle: "bvsle",
	oBAnd: "and", oBOr: "or",
	oFAdd: "fp.add", oFSub: "fp.sub", oFMul: "fp.mul", oFDiv: "fp.div", oFNeg: "fp.neg",
	oFEq: "fp.eq", oFLt: "fp.lt", oFLe: "fp.leq", oI2F: "i2f", oU2F: "u2f", oF2I: "f2i",
	oFIsNaN: "fp.isNaN", oAtom: "atom",
}

type Term struct {
	id   int32
	op   opKind
	w    uint8
	a    *Term
	b    *Term
	c    *Term
	k    uint64
	name string
	fp   bool // the DAG below contains floating-point operators
}

func (t *Term) isConst() bool { return t.op == oConst || t.op == oTrue || t.op == oFalse }
func (t *Term) isBool() bool  { return t.w == 0 }

type termKey struct {
	op      opKind
	w       uint8
	a, b, c int32
	k       uint64
	name    string
}

// termTable is per-path: ids are deterministic for a given execution.
type termTable struct {
	m     map[termKey]*Term
	all   []*Term
	vars  []*Term
	tTrue *Term
	tFals *Term
}

func newTermTable() *termTable {
	tt := &termTable{m: make(map[termKey]*Term, 1024)}
	tt.tTrue = tt.mk(oTrue, 0, nil, nil, nil, 0, "")
	tt.tFals = tt.mk(oFalse, 0, nil, nil, nil, 0, "")
	return tt
}

func tid(t *Term) int32 {
	if t == nil {
		return -1
	}
	return t.id
}

func (tt *termTable) mk(op opKind, w uint8, a, b, c *Term, k uint64, name string) *Term {
	key := termKey{op, w, tid(a), tid(b), tid(c), k, name}
	if t, ok := tt.m[key]; ok {
		return t
	}
	t := &Term{id: int32(len(tt.all)), op: op, w: w, a: a, b: b, c: c, k: k, name: name}
	switch op {
	case oFAdd, oFSub, oFMul, oFDiv, oFNeg, oFEq, oFLt, oFLe, oI2F, oU2F, oF2I, oFIsNaN:
		t.fp = true
	default:
		t.fp = (a != nil && a.fp) || (b != nil && b.fp) || (c != nil && c.fp)
	}
	tt.m[key] = t
	tt.all = append(tt.all, t)
	if op == oVar {
		tt.vars = append(tt.vars, t)
	}
	return t
}

func mask(w uint8) uint64 {
	if w >= 64 {
		return ^uint64(0)
	}
	return (uint64(1) << w) - 1
}

func sext64(v uint64, w uint8) int64 {
	if w >= 64 {
		return int64(v)
	}
	sh := 64 - uint(w)
	return int64(v<<sh) >> sh
}

func (tt *termTable) Var(name string, w uint8) *Term {
	return tt.mk(oVar, w, nil, nil, nil, 0, name)
}

func (tt *termTable) Const(v uint64, w uint8) *Term {
	if w == 0 {
		return tt.Bool(v != 0)
	}
	return tt.mk(oConst, w, nil, nil, nil, v&mask(w), "")
}

func (tt *termTable) Bool(b bool) *Term {
	if b {
		return tt.tTrue
	}
	return tt.tFals
}

func evalBin(op opKind, w uint8, x, y uint64) (uint64, bool) {
	m := mask(w)
	switch op {
	case oAdd:
		return (x + y) & m, true
	case oSub:
		return (x - y) & m, true
	case oMul:
		return (x * y) & m, true
	case oUDiv:
		if y == 0 {
			return m, true
		}
		return x / y, true
	case oURem:
		if y == 0 {
			return x, true
		}
		return x % y, true
	case oSDiv:
		sx, sy := sext64(x, w), sext64(y, w)
		if sy == 0 {
			if sx >= 0 {
				return m, true
			}
			return 1, true
		}
		if sy == -1 {
			return uint64(-sx) & m, true
		}
		return uint64(sx/sy) & m, true
	case oSRem:
		sx, sy := sext64(x, w), sext64(y, w)
		if sy == 0 {
			return x, true
		}
		if sy == -1 {
			return 0, true
		}
		return uint64(sx%sy) & m, true
	case oAnd:
		return x & y, true
	case oOr:
		return x | y, true
	case oXor:
		return x ^ y, true
	case oShl:
		if y >= uint64(w) {
			return 0, true
		}
		return (x << y) & m, true
	case oLShr:
		if y >= uint64(w) {
			return 0, true
		}
		return x >> y, true
	case oAShr:
		sx := sext64(x, w)
		if y >= uint64(w) {
			y = uint64(w) - 1
		}
		return uint64(sx>>y) & m, true
	case oFAdd:
		return math.Float64bits(math.Float64frombits(x) + math.Float64frombits(y)), true
	case oFSub:
		return math.Float64bits(math.Float64frombits(x) - math.Float64frombits(y)), true
	case oFMul:
		return math.Float64bits(math.Float64frombits(x) * math.Float64frombits(y)), true
	case oFDiv:
		return math.Float64bits(math.Float64frombits(x) / math.Float64frombits(y)), true
	}
	return 0, false
}

func evalCmp(op opKind, w uint8, x, y uint64) (bool, bool) {
	switch op {
	case oEq:
		return x == y, true
	case oUlt:
		return x < y, true
	case oUle:
		return x <= y, true
	case oSlt:
		return sext64(x, w) < sext64(y, w), true
	case oSle:
		return sext64(x, w) <= sext64(y, w), true
	case oFEq:
		return math.Float64frombits(x) == math.Float64frombits(y), true
	case oFLt:
		return math.Float64frombits(x) < math.Float64frombits(y), true
	case oFLe:
		return math.Float64frombits(x) <= math.Float64frombits(y), true
	}
	return false, false
}

// Bin builds a width-preserving binary bit-vector term.
func (tt *termTable) Bin(op opKind, a, b *Term) *Term {
	w := a.w
	if a.w != b.w {
		panic(fmt.Sprintf("term width mismatch %s: %d vs %d", opNames[op], a.w, b.w))
	}
	if a.op == oConst && b.op == oConst {
		if v, ok := evalBin(op, w, a.k, b.k); ok {
			return tt.Const(v, w)
		}
	}
	switch op {
	case oAdd, oOr, oXor:
		if a.op == oConst && a.k == 0 {
			return b
		}
		if b.op == oConst && b.k == 0 {
			return a
		}
	case oSub, oShl, oLShr, oAShr:
		if b.op == oConst && b.k == 0 {
			return a
		}
	case oAnd:
		if a.op == oConst && a.k == 0 {
			return a
		}
		if b.op == oConst && b.k == 0 {
			return b
		}
		if a.op == oConst && a.k == mask(w) {
			return b
		}
		if b.op == oConst && b.k == mask(w) {
			return a
		}
	case oMul:
		if a.op == oConst && a.k == 1 {
			return b
		}
		if b.op == oConst && b.k == 1 {
			return a
		}
		if a.op == oConst && a.k == 0 {
			return a
		}
		if b.op == oConst && b.k == 0 {
			return b
		}
	}
	if (op == oAnd || op == oOr) && a == b {
		return a
	}
	// division / remainder / multiplication by a power of two
	if b.op == oConst && b.k != 0 && b.k&(b.k-1) == 0 {
		sh := uint64(bits.TrailingZeros64(b.k))
		switch op {
		case oUDiv:
			return tt.Bin(oLShr, a, tt.Const(sh, w))
		case oURem:
			return tt.Bin(oAnd, a, tt.Const(b.k-1, w))
		case oMul:
			return tt.Bin(oShl, a, tt.Const(sh, w))
		}
	}
	if op == oMul && a.op == oConst && a.k != 0 && a.k&(a.k-1) == 0 {
		return tt.Bin(oShl, b, tt.Const(uint64(bits.TrailingZeros64(a.k)), w))
	}
	// x & (2^k - 1)  ==> zext(extract(x, k-1, 0))
	if op == oAnd {
		c, x := a, b
		if b.op == oConst {
			c, x = b, a
		}
		if c.op == oConst && c.k != 0 && c.k != mask(w) && (c.k+1)&c.k == 0 {
			k := uint8(bits.Len64(c.k))
			return tt.ZExt(tt.Extract(x, k-1, 0), w)
		}
	}
	// shifts of "placed pieces" and disjoint ors are kept in concat form
	if op == oShl && b.op == oConst && b.k < uint64(w) && b.k > 0 {
		if ps, ok := tt.pieces(a); ok {
			var out []piece
			for _, p := range ps {
				lo := int(p.lo) + int(b.k)
				if lo >= int(w) {
					continue
				}
				t := p.t
				if lo+int(t.w) > int(w) {
					t = tt.Extract(t, uint8(int(w)-lo-1), 0)
				}
				out = append(out, piece{uint8(lo), t})
			}
			return tt.fromPieces(out, w)
		}
	}
	if op == oLShr && b.op == oConst && b.k < uint64(w) && b.k > 0 {
		// logical shift right = zext of the upper bits
		return tt.ZExt(tt.Extract(a, w-1, uint8(b.k)), w)
	}
	if op == oOr || op == oXor || op == oAdd {
		pa, oka := tt.pieces(a)
		pb, okb := tt.pieces(b)
		if oka && okb && disjoint(pa, pb) {
			return tt.fromPieces(append(append([]piece(nil), pa...), pb...), w)
		}
	}
	// canonical order for commutative ops
	switch op {
	case oAdd, oMul, oAnd, oOr, oXor:
		if a.id > b.id {
			a, b = b, a
		}
	}
	// shifts by constants larger than width
	if (op == oShl || op == oLShr) && b.op == oConst && b.k >= uint64(w) {
		return tt.Const(0, w)
	}
	// (x & c) where x = zext(y) and c covers y's width
	if op == oAnd {
		var c, x *Term
		if a.op == oConst {
			c, x = a, b
		} else if b.op == oConst {
			c, x = b, a
		}
		if c != nil && x.op == oZExt && c.k&mask(x.a.w) == mask(x.a.w) {
			return x
		}
	}
	return tt.mk(op, w, a, b, nil, 0, "")
}

func (tt *termTable) Cmp(op opKind, a, b *Term) *Term {
	if a.w != b.w {
		panic(fmt.Sprintf("term width mismatch %s: %d vs %d", opNames[op], a.w, b.w))
	}
	if a.w == 0 {
		// boolean equality
		if op != oEq {
			panic("non-eq comparison of bools")
		}
		if a.isConst() {
			if a.op == oTrue {
				return b
			}
			return tt.Not(b)
		}
		if b.isConst() {
			if b.op == oTrue {
				return a
			}
			return tt.Not(a)
		}
		if a == b {
			return tt.tTrue
		}
		if a.id > b.id {
			a, b = b, a
		}
		return tt.mk(oEq, 0, a, b, nil, 0, "")
	}
	if a.op == oConst && b.op == oConst {
		if v, ok := evalCmp(op, a.w, a.k, b.k); ok {
			return tt.Bool(v)
		}
	}
	if a == b {
		switch op {
		case oEq, oUle, oSle:
			return tt.tTrue
		case oUlt, oSlt:
			return tt.tFals
		}
	}
	if op == oEq {
		// eq(zext(x), c): narrow
		if a.op == oConst {
			a, b = b, a
		}
		if b.op == oConst && (a.op == oZExt) {
			if b.k > mask(a.a.w) {
				return tt.tFals
			}
			return tt.Cmp(oEq, a.a, tt.Const(b.k, a.a.w))
		}
		if b.op == oConst && a.op == oSExt {
			iw := a.a.w
			lowOK := sext64(b.k&mask(iw), iw) == sext64(b.k, a.w)
			if !lowOK {
				return tt.tFals
			}
			return tt.Cmp(oEq, a.a, tt.Const(b.k, iw))
		}
		// eq(ite(c, k1, k2), k) with constants
		if b.op == oConst && a.op == oIte && a.b.op == oConst && a.c.op == oConst {
			t1, t2 := a.b.k == b.k, a.c.k == b.k
			switch {
			case t1 && t2:
				return tt.tTrue
			case t1:
				return a.a
			case t2:
				return tt.Not(a.a)
			default:
				return tt.tFals
			}
		}
		if a.op != oConst && b.op != oConst && a.id > b.id {
			a, b = b, a
		}
	}
	if (op == oUlt) && b.op == oConst && b.k == 0 {
		return tt.tFals
	}
	if (op == oUle) && a.op == oConst && a.k == 0 {
		return tt.tTrue
	}
	if (op == oUlt || op == oUle) && a.op == oZExt && b.op == oConst {
		if b.k > mask(a.a.w) {
			return tt.tTrue
		}
		return tt.Cmp(op, a.a, tt.Const(b.k, a.a.w))
	}
	if (op == oUlt || op == oUle) && b.op == oZExt && a.op == oConst {
		if a.k > mask(b.a.w) {
			return tt.tFals
		}
		return tt.Cmp(op, tt.Const(a.k, b.a.w), b.a)
	}
	if (op == oSlt || op == oSle) && a.op == oZExt && b.op == oConst && a.a.w < a.w {
		// zext value is non-negative
		if sext64(b.k, b.w) < 0 {
			return tt.tFals
		}
		uop := oUlt
		if op == oSle {
			uop = oUle
		}
		return tt.Cmp(uop, a, b)
	}
	if (op == oSlt || op == oSle) && b.op == oZExt && a.op == oConst && b.a.w < b.w {
		if sext64(a.k, a.w) < 0 {
			return tt.tTrue
		}
		uop := oUlt
		if op == oSle {
			uop = oUle
		}
		return tt.Cmp(uop, a, b)
	}
	return tt.mk(op, 0, a, b, nil, 0, "")
}

func (tt *termTable) Not(a *Term) *Term {
	if a.w == 0 {
		switch a.op {
		case oTrue:
			return tt.tFals
		case oFalse:
			return tt.tTrue
		case oNot:
			return a.a
		}
		return tt.mk(oNot, 0, a, nil, nil, 0, "")
	}
	if a.op == oConst {
		return tt.Const(^a.k, a.w)
	}
	if a.op == oNot {
		return a.a
	}
	return tt.mk(oNot, a.w, a, nil, nil, 0, "")
}

func (tt *termTable) Neg(a *Term) *Term {
	if a.op == oConst {
		return tt.Const(-a.k, a.w)
	}
	return tt.mk(oNeg, a.w, a, nil, nil, 0, "")
}

func (tt *termTable) FNeg(a *Term) *Term {
	if a.op == oConst {
		return tt.Const(math.Float64bits(-math.Float64frombits(a.k)), 64)
	}
	return tt.mk(oFNeg, 64, a, nil, nil, 0, "")
}

func (tt *termTable) BAnd(a, b *Term) *Term {
	if a.op == oFalse || b.op == oFalse {
		return tt.tFals
	}
	if a.op == oTrue {
		return b
	}
	if b.op == oTrue {
		return a
	}
	if a == b {
		return a
	}
	if a.id > b.id {
		a, b = b, a
	}
	return tt.mk(oBAnd, 0, a, b, nil, 0, "")
}

func (tt *termTable) BOr(a, b *Term) *Term {
	if a.op == oTrue || b.op == oTrue {
		return tt.tTrue
	}
	if a.op == oFalse {
		return b
	}
	if b.op == oFalse {
		return a
	}
	if a == b {
		return a
	}
	if a.id > b.id {
		a, b = b, a
	}
	return tt.mk(oBOr, 0, a, b, nil, 0, "")
}

func (tt *termTable) Ite(c, a, b *Term) *Term {
	if c.op == oTrue {
		return a
	}
	if c.op == oFalse {
		return b
	}
	if a == b {
		return a
	}
	if a.w != b.w {
		panic("ite width mismatch")
	}
	if a.w == 0 {
		if a.op == oTrue && b.op == oFalse {
			return c
		}
		if a.op == oFalse && b.op == oTrue {
			return tt.Not(c)
		}
	}
	return tt.mk(oIte, a.w, c, a, b, 0, "")
}

func (tt *termTable) Extract(a *Term, hi, lo uint8) *Term {
	w := hi - lo + 1
	if lo == 0 && w == a.w {
		return a
	}
	if a.op == oConst {
		return tt.Const(a.k>>lo, w)
	}
	if (a.op == oZExt || a.op == oSExt) && lo == 0 && w <= a.a.w {
		return tt.Extract(a.a, hi, 0)
	}
	if a.op == oZExt && lo >= a.a.w {
		return tt.Const(0, w)
	}
	if a.op == oZExt && lo < a.a.w && hi >= a.a.w {
		return tt.ZExt(tt.Extract(a.a, a.a.w-1, lo), w)
	}
	if a.op == oZExt && hi < a.a.w {
		return tt.Extract(a.a, hi, lo)
	}
	switch a.op {
	case oExtract:
		l1 := uint8(a.k)
		return tt.Extract(a.a, l1+hi, l1+lo)
	case oConcat:
		lw := a.b.w
		if hi < lw {
			return tt.Extract(a.b, hi, lo)
		}
		if lo >= lw {
			return tt.Extract(a.a, hi-lw, lo-lw)
		}
		return tt.Concat(tt.Extract(a.a, hi-lw, 0), tt.Extract(a.b, lw-1, lo))
	case oAnd, oOr, oXor:
		return tt.Bin(a.op, tt.Extract(a.a, hi, lo), tt.Extract(a.b, hi, lo))
	case oNot:
		return tt.Not(tt.Extract(a.a, hi, lo))
	case oIte:
		if a.b.op == oConst || a.c.op == oConst {
			return tt.Ite(a.a, tt.Extract(a.b, hi, lo), tt.Extract(a.c, hi, lo))
		}
	case oAdd, oSub, oMul:
		if lo == 0 {
			// low bits of modular arithmetic depend only on low bits
			return tt.Bin(a.op, tt.Extract(a.a, hi, 0), tt.Extract(a.b, hi, 0))
		}
	case oShl:
		if a.b.op == oConst && uint64(lo) >= a.b.k {
			return tt.Extract(a.a, hi-uint8(a.b.k), lo-uint8(a.b.k))
		}
	}
	return tt.mk(oExtract, w, a, nil, nil, uint64(hi)<<8|uint64(lo), "")
}

func (tt *termTable) ZExt(a *Term, w uint8) *Term {
	if a.w == w {
		return a
	}
	if a.w > w {
		return tt.Extract(a, w-1, 0)
	}
	if a.op == oConst {
		return tt.Const(a.k, w)
	}
	if a.op == oZExt {
		return tt.ZExt(a.a, w)
	}
	return tt.mk(oZExt, w, a, nil, nil, 0, "")
}

func (tt *termTable) SExt(a *Term, w uint8) *Term {
	if a.w == w {
		return a
	}
	if a.w > w {
		return tt.Extract(a, w-1, 0)
	}
	if a.op == oConst {
		return tt.Const(uint64(sext64(a.k, a.w)), w)
	}
	if a.op == oZExt && a.a.w < a.w {
		return tt.ZExt(a.a, w)
	}
	return tt.mk(oSExt, w, a, nil, nil, 0, "")
}

func (tt *termTable) Concat(hi, lo *Term) *Term {
	w := hi.w + lo.w
	if hi.op == oConst && lo.op == oConst {
		return tt.Const(hi.k<<lo.w|lo.k, w)
	}
	// concat(extract(x,h,l), extract(x,l-1,m)) = extract(x,h,m)
	if hi.op == oExtract && lo.op == oExtract && hi.a == lo.a && uint8(hi.k) == uint8(lo.k>>8)+1 {
		return tt.Extract(hi.a, uint8(hi.k>>8), uint8(lo.k))
	}
	if hi.op == oExtract && lo.op == oConcat && lo.a.op == oExtract && hi.a == lo.a.a && uint8(hi.k) == uint8(lo.a.k>>8)+1 {
		return tt.Concat(tt.Extract(hi.a, uint8(hi.k>>8), uint8(lo.a.k)), lo.b)
	}
	// zero high part = zero extension
	if hi.op == oConst && hi.k == 0 {
		return tt.ZExt(lo, w)
	}
	return tt.mk(oConcat, w, hi, lo, nil, 0, "")
}

func (tt *termTable) I2F(a *Term, signed bool) *Term {
	if a.w != 64 {
		if signed {
			a = tt.SExt(a, 64)
		} else {
			a = tt.ZExt(a, 64)
		}
	}
	if a.op == oConst {
		if signed {
			return tt.Const(math.Float64bits(float64(int64(a.k))), 64)
		}
		return tt.Const(math.Float64bits(float64(a.k)), 64)
	}
	if signed {
		return tt.mk(oI2F, 64, a, nil, nil, 0, "")
	}
	return tt.mk(oU2F, 64, a, nil, nil, 0, "")
}

func (tt *termTable) F2I(a *Term) *Term {
	if a.op == oConst {
		return tt.Const(uint64(int64(math.Float64frombits(a.k))), 64)
	}
	return tt.mk(oF2I, 64, a, nil, nil, 0, "")
}

func (tt *termTable) FIsNaN(a *Term) *Term {
	if a.op == oConst {
		return tt.Bool(math.IsNaN(math.Float64frombits(a.k)))
	}
	return tt.mk(oFIsNaN, 0, a, nil, nil, 0, "")
}

func (tt *termTable) Atom(label string, a *Term) *Term {
	return tt.mk(oAtom, 8, a, nil, nil, 0, label)
}

// ---- evaluation under a model (var name -> value) ----

type modelT map[string]uint64

func (t *Term) eval(m modelT, memo map[int32]uint64) uint64 {
	if v, ok := memo[t.id]; ok {
		return v
	}
	var v uint64
	b2u := func(b bool) uint64 {
		if b {
			return 1
		}
		return 0
	}
	switch t.op {
	case oVar:
		v = m[t.name] & mask(t.w)
		if t.w == 0 {
			v = m[t.name] & 1
		}
	case oConst:
		v = t.k
	case oTrue:
		v = 1
	case oFalse:
		v = 0
	case oNot:
		x := t.a.eval(m, memo)
		if t.w == 0 {
			v = x ^ 1
		} else {
			v = ^x & mask(t.w)
		}
	case oNeg:
		v = (-t.a.eval(m, memo)) & mask(t.w)
	case oFNeg:
		v = math.Float64bits(-math.Float64frombits(t.a.eval(m, memo)))
	case oExtract:
		hi, lo := uint8(t.k>>8), uint8(t.k)
		v = (t.a.eval(m, memo) >> lo) & mask(hi-lo+1)
	case oZExt:
		v = t.a.eval(m, memo)
	case oSExt:
		v = uint64(sext64(t.a.eval(m, memo), t.a.w)) & mask(t.w)
	case oConcat:
		v = t.a.eval(m, memo)<<t.b.w | t.b.eval(m, memo)
	case oIte:
		if t.a.eval(m, memo) != 0 {
			v = t.b.eval(m, memo)
		} else {
			v = t.c.eval(m, memo)
		}
	case oBAnd:
		v = t.a.eval(m, memo) & t.b.eval(m, memo)
	case oBOr:
		v = t.a.eval(m, memo) | t.b.eval(m, memo)
	case oEq, oUlt, oUle, oSlt, oSle, oFEq, oFLt, oFLe:
		if t.a.w == 0 {
			v = b2u(t.a.eval(m, memo) == t.b.eval(m, memo))
		} else {
			r, _ := evalCmp(t.op, t.a.w, t.a.eval(m, memo), t.b.eval(m, memo))
			v = b2u(r)
		}
	case oI2F:
		v = math.Float64bits(float64(int64(t.a.eval(m, memo))))
	case oU2F:
		v = math.Float64bits(float64(t.a.eval(m, memo)))
	case oF2I:
		v = uint64(int64(math.Float64frombits(t.a.eval(m, memo))))
	case oFIsNaN:
		v = b2u(math.IsNaN(math.Float64frombits(t.a.eval(m, memo))))
	case oAtom:
		v = 0
	default:
		r, ok := evalBin(t.op, t.w, t.a.eval(m, memo), t.b.eval(m, memo))
		if !ok {
			panic("eval: unhandled op " + opNames[t.op])
		}
		v = r
	}
	memo[t.id] = v
	return v
}

// ---- SMT-LIB printing ----

func smtSort(w uint8) string {
	if w == 0 {
		return "Bool"
	}
	return fmt.Sprintf("(_ BitVec %d)", w)
}

func smtConst(v uint64, w uint8) string {
	if w%4 == 0 {
		return fmt.Sprintf("#x%0*x", int(w/4), v&mask(w))
	}
	return fmt.Sprintf("#b%0*b", int(w), v&mask(w))
}

func (t *Term) ref() string {
	switch t.op {
	case oVar:
		return t.name
	case oConst:
		return smtConst(t.k, t.w)
	case oTrue:
		return "true"
	case oFalse:
		return "false"
	}
	return fmt.Sprintf("t%d", t.id)
}

const toFP = "((_ to_fp 11 53) %s)"

// body returns the SMT-LIB expression defining t in terms of refs of its args.
func (t *Term) body() string {
	fp := func(x *Term) string { return fmt.Sprintf(toFP, x.ref()) }
	switch t.op {
	case oNot:
		if t.w == 0 {
			return "(not " + t.a.ref() + ")"
		}
		return "(bvnot " + t.a.ref() + ")"
	case oNeg:
		return "(bvneg " + t.a.ref() + ")"
	case oExtract:
		return fmt.Sprintf("((_ extract %d %d) %s)", t.k>>8, t.k&0xff, t.a.ref())
	case oZExt:
		return fmt.Sprintf("((_ zero_extend %d) %s)", t.w-t.a.w, t.a.ref())
	case oSExt:
		return fmt.Sprintf("((_ sign_extend %d) %s)", t.w-t.a.w, t.a.ref())
	case oIte:
		return "(ite " + t.a.ref() + " " + t.b.ref() + " " + t.c.ref() + ")"
	case oFAdd, oFSub, oFMul, oFDiv:
		return fmt.Sprintf("(fp.to_ieee_bv (%s RNE %s %s))", opNames[t.op], fp(t.a), fp(t.b))
	case oFNeg:
		return fmt.Sprintf("(fp.to_ieee_bv (fp.neg %s))", fp(t.a))
	case oFEq, oFLt, oFLe:
		return fmt.Sprintf("(%s %s %s)", opNames[t.op], fp(t.a), fp(t.b))
	case oFIsNaN:
		return fmt.Sprintf("(fp.isNaN %s)", fp(t.a))
	case oI2F:
		return fmt.Sprintf("(fp.to_ieee_bv ((_ to_fp 11 53) RNE %s))", t.a.ref())
	case oU2F:
		return fmt.Sprintf("(fp.to_ieee_bv ((_ to_fp_unsigned 11 53) RNE %s))", t.a.ref())
	case oF2I:
		// Go on amd64 (CVTTSD2SQ): NaN and out-of-range values give MinInt64
		f := fp(t.a)
		big := "((_ to_fp 11 53) #x43e0000000000000)" // 2^63
		neg := "((_ to_fp 11 53) #xc3e0000000000000)" // -2^63
		return fmt.Sprintf("(ite (or (fp.isNaN %s) (fp.geq %s %s) (fp.lt %s %s)) #x8000000000000000 ((_ fp.to_sbv 64) RTZ %s))", f, f, big, f, neg, f)
	case oAtom:
		panic("atom term sent to solver")
	}
	return "(" + opNames[t.op] + " " + t.a.ref() + " " + t.b.ref() + ")"
}

func (t *Term) String() string {
	var sb strings.Builder
	t.write(&sb, 0)
	return sb.String()
}

func (t *Term) write(sb *strings.Builder, depth int) {
	if depth > 6 {
		sb.WriteString("…")
		return
	}
	switch t.op {
	case oVar, oConst, oTrue, oFalse:
		sb.WriteString(t.ref())
		return
	case oAtom:
		sb.WriteString("atom:" + t.name)
		return
	}
	sb.WriteString("(" + opNames[t.op])
	if t.op == oExtract {
		fmt.Fprintf(sb, "[%d:%d]", t.k>>8, t.k&0xff)
	}
	for _, x := range []*Term{t.a, t.b, t.c} {
		if x != nil {
			sb.WriteString(" ")
			x.write(sb, depth+1)
		}
	}
	sb.WriteString(")")
}

// ---- placed pieces: terms of the form "t at bit offset lo, zero elsewhere" ----

type piece struct {
	lo uint8
	t  *Term
}

// pieces decomposes a term into disjoint placed pieces if it has that form.
func (tt *termTable) pieces(t *Term) ([]piece, bool) {
	switch t.op {
	case oConst:
		if t.k == 0 {
			return nil, true
		}
		// a constant is a piece covering its significant bits
		hiBit := uint8(bits.Len64(t.k))
		loBit := uint8(bits.TrailingZeros64(t.k))
		return []piece{{loBit, tt.Const(t.k>>loBit, hiBit-loBit)}}, true
	case oZExt:
		if ps, ok := tt.pieces(t.a); ok {
			return ps, true
		}
		return []piece{{0, t.a}}, true
	case oConcat:
		ph, ok1 := tt.pieces(t.a)
		if !ok1 {
			ph = []piece{{0, t.a}}
		}
		pl, ok2 := tt.pieces(t.b)
		if !ok2 {
			pl = []piece{{0, t.b}}
		}
		out := append([]piece(nil), pl...)
		for _, p := range ph {
			out = append(out, piece{p.lo + t.b.w, p.t})
		}
		return out, true
	case oExtract, oVar:
		if t.w <= 32 {
			return []piece{{0, t}}, true
		}
	}
	return nil, false
}

func disjoint(a, b []piece) bool {
	for _, p := range a {
		for _, q := range b {
			if int(p.lo) < int(q.lo)+int(q.t.w) && int(q.lo) < int(p.lo)+int(p.t.w) {
				return false
			}
		}
	}
	return true
}

// fromPieces rebuilds a width-w term from disjoint pieces (gaps are zero).
func (tt *termTable) fromPieces(ps []piece, w uint8) *Term {
	// sort by lo descending (insertion sort; few pieces)
	for i := 1; i < len(ps); i++ {
		for j := i; j > 0 && ps[j].lo > ps[j-1].lo; j-- {
			ps[j], ps[j-1] = ps[j-1], ps[j]
		}
	}
	var res *Term
	next := int(w) // next unfilled bit position (exclusive upper bound)
	for _, p := range ps {
		top := int(p.lo) + int(p.t.w)
		if top > next {
			panic("fromPieces: overlapping pieces")
		}
		if top < next {
			z := tt.Const(0, uint8(next-top))
			if res == nil {
				res = z
			} else {
				res = tt.Concat(res, z)
			}
		}
		if res == nil {
			res = p.t
		} else {
			res = tt.Concat(res, p.t)
		}
		next = int(p.lo)
	}
	if next > 0 {
		z := tt.Const(0, uint8(next))
		if res == nil {
			res = z
		} else {
			res = tt.Concat(res, z)
		}
	}
	if res == nil {
		return tt.Const(0, w)
	}
	return res
}
