package interp

import (
	"fmt"
	"go/token"
	"go/types"
	"os"
	"runtime/debug"
	"strings"
	"time"

	"golang.org/x/tools/go/ssa"
)

// Machine is one interpreter instance (one per worker process).
type Machine struct {
	i       *interpreter
	Prog    *ssa.Program
	sol     *solver
	initOK  bool
	globalCells map[*value]string
}

type PathOpts struct {
	Budget          int64
	SolverTimeoutMs int
	SchedExplore    bool
	PreemptBudget   int
	SchedFilter     string
	MapOrderExplore bool
	LogEvents       bool
	Concrete        []InputRec // if non-nil, run concretely with these inputs
	Model           map[string]uint64 // a model of the prefix's path condition (nil = unknown)
}

var initWhitelist = map[string]bool{
	"github.com/wkhere/bcl":     true,
	"github.com/wkhere/bcl/cmd/bcl": true,
	"github.com/mohae/uvarint":  true,
	"io":                        true,
	"unicode/utf8":              true,
	"unicode":                   true,
	"strconv":                   true,
	"strings":                   true,
	"bytes":                     true,
	"bufio":                     true,
	"sort":                      true,
	"slices":                    true,
	"math":                      true,
	"math/bits":                 true,
	"encoding/binary":           true,
	"io/fs":                     false,
}

func (i *interpreter) initAllowed(fn *ssa.Function) bool {
	if fn.Pkg == nil {
		return false
	}
	p := fn.Pkg.Pkg.Path()
	if initWhitelist[p] {
		return true
	}
	return strings.HasPrefix(p, "verifharness")
}

type extFn2 func(fr *frame, args []value) (value, bool)

var models = make(map[string]extFn2)

func (i *interpreter) extFor(fn *ssa.Function, name string) extFn2 {
	if m := models[name]; m != nil {
		return func(fr *frame, args []value) (value, bool) {
			r, ok := m(fr, args)
			if ok && cur != nil && cur.intr != nil {
				cur.intr[name] = true
			}
			return r, ok
		}
	}
	if ext := externals[name]; ext != nil {
		return func(fr *frame, args []value) (value, bool) {
			if cur != nil && cur.intr != nil {
				cur.intr[name] = true
			}
			return ext(fr, args), true
		}
	}
	return nil
}

func NewMachine(prog *ssa.Program, mainPkg *ssa.Package, sizes types.Sizes, solverTimeoutMs int) (*Machine, error) {
	i := &interpreter{
		prog:    prog,
		globals: make(map[*ssa.Global]*value),
		sizes:   sizes,
	}
	runtimePkg := prog.ImportedPackage("runtime")
	if runtimePkg == nil {
		return nil, fmt.Errorf("ssa.Program doesn't include runtime package")
	}
	i.runtimeErrorString = runtimePkg.Type("errorString").Object().Type()
	initReflect(i)
	initReflectModel(i)
	m := &Machine{i: i, Prog: prog, globalCells: make(map[*value]string)}
	for _, pkg := range prog.AllPackages() {
		for _, mem := range pkg.Members {
			if g, ok := mem.(*ssa.Global); ok {
				cell := zero(mustDeref(g.Type()))
				i.globals[g] = &cell
				p := pkg.Pkg.Path()
				if p == targetPkgPath || strings.HasPrefix(p, targetPkgPath+"/") {
					m.globalCells[&cell] = p + "." + g.Name()
				}
			}
		}
	}
	m.sol = newSolver(solverTimeoutMs)
	// run package initialisers once, concretely
	res := m.run(func() {
		call(i, nil, token.NoPos, mainPkg.Func("init"), nil)
	}, "init", nil, PathOpts{Budget: 1 << 40}, true)
	if res.Outcome != "ok" {
		return nil, fmt.Errorf("package initialisation failed: %s: %s", res.Outcome, res.Detail)
	}
	return m, nil
}

func (m *Machine) Close() { m.sol.close() }

// RunPath executes harness function fn under the decision prefix.
func (m *Machine) RunPath(fn *ssa.Function, prefix []int, opts PathOpts) *PathResult {
	return m.run(func() {
		call(m.i, nil, token.NoPos, fn, nil)
	}, fn.Name(), prefix, opts, false)
}

func (m *Machine) run(body func(), name string, prefix []int, opts PathOpts, isInit bool) *PathResult {
	if opts.Budget == 0 {
		opts.Budget = 20_000_000
	}
	res := &PathResult{Harness: name, Prefix: prefix}
	c := &pathCtx{
		tt:      newTermTable(),
		sol:     m.sol,
		prefix:  prefix,
		res:     res,
		budget:  opts.Budget,
		reached: map[string]bool{},
		funcs:   map[string]bool{},
		intr:    map[string]bool{},
		oom:     map[string]bool{},
		fset:    m.Prog.Fset,
		inInit:  isInit,
		globalCells: m.globalCells,
		concrete: opts.Concrete,
		isConcrete: opts.Concrete != nil,
		mapOrderExplore: opts.MapOrderExplore,
		locks: map[*value]bool{},
		curModel: modelT{},
	}
	q0, t0 := m.sol.queries, m.sol.solveTime
	e0 := m.sol.errors
	m.sol.reset()
	c.sched = newScheduler()
	c.sched.explore = opts.SchedExplore
	c.sched.preemptBudget = opts.PreemptBudget
	c.sched.filter = opts.SchedFilter
	c.sched.logEvents = opts.LogEvents
	if len(prefix) > 0 {
		if opts.Model != nil {
			c.curModel = modelT(opts.Model)
		} else {
			c.curModel = nil
		}
	}
	cur = c
	start := time.Now()
	main := c.sched.spawn(func() {
		defer func() {
			// convert engine bugs into a path outcome with a stack
			if r := recover(); r != nil {
				switch p := r.(type) {
				case engineBug:
					panic(pathAbort{"engine-error", string(p) + " at " + c.posString()})
				case killedPanic, pathAbort, targetPanic, exitPanic, rtPanic:
					panic(r)
				case error:
					// Go runtime error raised by native operations of the
					// interpreter on behalf of the target (index, nil, ...)
					if os.Getenv("SYMGO_STACK") != "" {
						fmt.Fprintf(os.Stderr, "runtime error %v at %s\n%s\n", p, c.posString(), debug.Stack())
					}
					panic(r)
				default:
					if os.Getenv("SYMGO_STACK") != "" {
						fmt.Fprintf(os.Stderr, "panic %v at %s\n%s\n", r, c.posString(), debug.Stack())
					}
					panic(r)
				}
			}
		}()
		body()
	}, "main")
	c.sched.cur = main
	main.wake <- struct{}{}
	<-c.sched.finished
	c.sched.killAll()
	res.Outcome, res.Detail = c.sched.outcome, c.sched.detail
	res.WallMs = float64(time.Since(start)) / 1e6
	// path-level witness: a model of the final path condition
	if !isInit && (res.Outcome == "ok" || res.Outcome == "panic" || res.Outcome == "deadlock" || res.Outcome == "budget" || res.Outcome == "exit") {
		if c.curModel != nil {
			// self-check: the maintained model must satisfy every asserted
			// path-condition term under the engine's own evaluator
			memo := map[int32]uint64{}
			for _, t := range c.pcTerms {
				if t.eval(c.curModel, memo) == 0 {
					res.Outcome = "engine-error"
					res.Detail = "maintained model violates the path condition: " + t.String()
					break
				}
			}
		}
		if w, ok := c.model(nil, false); ok && res.Outcome != "engine-error" {
			res.Witness = w
			res.HasWitness = true
			mm := c.modelMap(w)
			memo := map[int32]uint64{}
			for _, o := range c.obsTerms {
				res.Observations = append(res.Observations, Observation{o.label, renderUnderModel(o.v, mm, memo)})
			}
			for _, o := range c.recTerms {
				res.Records = append(res.Records, Observation{o.label, renderUnderModel(o.v, mm, memo)})
			}
		} else {
			res.Uncertain = true
		}
	}
	if opts.LogEvents && !isInit && (res.Outcome == "ok" || res.Outcome == "deadlock") {
		races, nq, ncons := c.analyzeRaces()
		res.RaceQueries = nq
		res.HBConstraints = ncons
		for _, r := range races {
			res.Obligations = append(res.Obligations, Obligation{Label: "race-free", Status: "violated", Detail: r.Detail})
			c.violation("race", "race-free", r.Detail, nil, false)
		}
		if len(races) == 0 {
			res.Obligations = append(res.Obligations, Obligation{Label: "race-free", Status: "discharged"})
		}
	}
	c.finish()
	res.Queries = m.sol.queries - q0
	res.SolverMs = float64(m.sol.solveTime-t0) / 1e6
	res.SolverErrors = m.sol.errors - e0
	if res.SolverErrors > 0 {
		res.Uncertain = true
		res.Detail += " [solver error: " + m.sol.lastErr + "]"
	}
	res.Events = len(c.sched.events)
	cur = nil
	return res
}

// Script returns the SMT-LIB transcript of the last path (for cross-checking).
func (m *Machine) Script() string { return m.sol.script() }

// FindFunc looks up a harness function by package path and name.
func (m *Machine) FindFunc(pkgPath, name string) *ssa.Function {
	for _, p := range m.Prog.AllPackages() {
		if p.Pkg.Path() == pkgPath {
			return p.Func(name)
		}
	}
	return nil
}

var curTier int

// SetTier sets the value returned by verif.Tier().
func SetTier(t int) { curTier = t }

func init() {
	models[verifPkg+"Tier"] = func(fr *frame, a []value) (value, bool) { return curTier, true }
}
