package interp

// SMT-based happens-before analysis of one execution's event log.
//
// Every synchronisation event gets an integer order variable. Constraints:
// program order within a goroutine; spawn before the child's first event;
// k-th send before k-th receive on a channel; for a channel of capacity c the
// k-th receive before the (k+c)-th send completes (an unbuffered send is
// split into begin/end with begin < receive < end); close before every
// receive that observed the close; unlock before the next lock of the same
// mutex. Two conflicting memory accesses race iff the solver finds both an
// order with a before b and one with b before a.

import (
	"fmt"
	"os"
	"sort"
	"strings"
)

type RaceReport struct {
	Cell   string `json:"cell"`
	A      string `json:"a"`
	B      string `json:"b"`
	Detail string `json:"detail"`
}

type syncNode struct {
	g   int
	idx int // position in the goroutine's node list
}

func (c *pathCtx) analyzeRaces() ([]RaceReport, int, int) {
	evs := c.sched.events
	// per goroutine: list of sync node names in program order
	nodes := map[int][]string{}
	var cons []string
	newNode := func(g int) string {
		name := fmt.Sprintf("o_%d_%d", g, len(nodes[g]))
		if n := len(nodes[g]); n > 0 {
			cons = append(cons, fmt.Sprintf("(< %s %s)", nodes[g][n-1], name))
		}
		nodes[g] = append(nodes[g], name)
		return name
	}
	type chanSeq struct {
		sendBegin, sendEnd, recv []string
		closeNode                string
		recvClosed               []string
	}
	chans := map[*schan]*chanSeq{}
	getCh := func(ch *schan) *chanSeq {
		if chans[ch] == nil {
			chans[ch] = &chanSeq{}
		}
		return chans[ch]
	}
	spawnNode := map[int]string{} // child -> parent's spawn node
	lastUnlock := map[uintptr]string{}
	readUnlocks := map[uintptr][]string{}
	type memAcc struct {
		ev  int
		g   int
		seg int // number of sync nodes of g before the access
	}
	byCell := map[uintptr][]memAcc{}
	started := map[int]bool{}
	start := func(g int) {
		if started[g] {
			return
		}
		started[g] = true
		n := newNode(g)
		if p, ok := spawnNode[g]; ok {
			cons = append(cons, fmt.Sprintf("(< %s %s)", p, n))
		}
	}
	for i, e := range evs {
		start(e.g)
		switch e.kind {
		case evRead, evWrite:
			byCell[e.obj] = append(byCell[e.obj], memAcc{i, e.g, len(nodes[e.g])})
		case evSpawn:
			spawnNode[e.aux] = newNode(e.g)
		case evSend:
			cs := getCh(e.ch)
			b := newNode(e.g)
			en := b
			if e.ch.cap == 0 {
				en = newNode(e.g)
			}
			cs.sendBegin = append(cs.sendBegin, b)
			cs.sendEnd = append(cs.sendEnd, en)
		case evRecv:
			cs := getCh(e.ch)
			cs.recv = append(cs.recv, newNode(e.g))
		case evRecvClosed:
			cs := getCh(e.ch)
			cs.recvClosed = append(cs.recvClosed, newNode(e.g))
		case evClose:
			getCh(e.ch).closeNode = newNode(e.g)
		case evLock:
			n := newNode(e.g)
			if u, ok := lastUnlock[e.obj]; ok {
				cons = append(cons, fmt.Sprintf("(< %s %s)", u, n))
			}
			for _, ru := range readUnlocks[e.obj] {
				cons = append(cons, fmt.Sprintf("(< %s %s)", ru, n))
			}
			readUnlocks[e.obj] = nil
		case evUnlock:
			lastUnlock[e.obj] = newNode(e.g)
		case evRLock:
			n := newNode(e.g)
			if u, ok := lastUnlock[e.obj]; ok {
				cons = append(cons, fmt.Sprintf("(< %s %s)", u, n))
			}
		case evRUnlock:
			readUnlocks[e.obj] = append(readUnlocks[e.obj], newNode(e.g))
		case evExit:
			newNode(e.g)
		}
	}
	for ch, cs := range chans {
		n := len(cs.sendBegin)
		if len(cs.recv) < n {
			n = len(cs.recv)
		}
		for k := 0; k < n; k++ {
			cons = append(cons, fmt.Sprintf("(< %s %s)", cs.sendBegin[k], cs.recv[k]))
			if ch.cap == 0 {
				cons = append(cons, fmt.Sprintf("(< %s %s)", cs.recv[k], cs.sendEnd[k]))
			}
		}
		if ch.cap > 0 {
			for k := 0; k+ch.cap < len(cs.sendEnd) && k < len(cs.recv); k++ {
				cons = append(cons, fmt.Sprintf("(< %s %s)", cs.recv[k], cs.sendEnd[k+ch.cap]))
			}
		}
		if cs.closeNode != "" {
			for _, r := range cs.recvClosed {
				cons = append(cons, fmt.Sprintf("(< %s %s)", cs.closeNode, r))
			}
			// every send completes before the close in a correct program; the
			// observed order is kept
		}
	}
	// candidate pairs: same cell, different goroutines, at least one write,
	// at least one access made by the package under test
	type segKey struct{ g1, s1, g2, s2 int }
	type cand struct {
		a, b memAcc
		cell uintptr
	}
	pairs := map[segKey]cand{}
	cells := make([]uintptr, 0, len(byCell))
	for cell := range byCell {
		cells = append(cells, cell)
	}
	sort.Slice(cells, func(i, j int) bool { return cells[i] < cells[j] })
	for _, cell := range cells {
		accs := byCell[cell]
		gs := map[int]bool{}
		hasW := false
		for _, a := range accs {
			gs[a.g] = true
			hasW = hasW || evs[a.ev].kind == evWrite
		}
		if len(gs) < 2 || !hasW {
			continue
		}
		// representative accesses per (goroutine, segment, kind)
		type rk struct {
			g, seg int
			w      bool
		}
		reps := map[rk]memAcc{}
		var order []rk
		for _, a := range accs {
			k := rk{a.g, a.seg, evs[a.ev].kind == evWrite}
			if _, ok := reps[k]; !ok {
				reps[k] = a
				order = append(order, k)
			}
		}
		for i := 0; i < len(order); i++ {
			for j := i + 1; j < len(order); j++ {
				x, y := order[i], order[j]
				if x.g == y.g || (!x.w && !y.w) {
					continue
				}
				a, b := reps[x], reps[y]
				if !evs[a.ev].target && !evs[b.ev].target {
					continue
				}
				key := segKey{a.g, a.seg, b.g, b.seg}
				if _, ok := pairs[key]; !ok {
					pairs[key] = cand{a, b, cell}
				}
			}
		}
	}
	if os.Getenv("SYMGO_RACEDEBUG") != "" {
		fmt.Fprintf(os.Stderr, "race debug: %d events, %d cells, %d candidate pairs, %d constraints\n", len(evs), len(byCell), len(pairs), len(cons))
		for _, cell := range cells {
			accs := byCell[cell]
			gs := map[int]int{}
			w := 0
			for _, a := range accs {
				gs[a.g]++
				if evs[a.ev].kind == evWrite {
					w++
				}
			}
			if len(gs) >= 2 && w > 0 {
				fmt.Fprintf(os.Stderr, "  shared cell %x: per-goroutine %v writes=%d first=%s\n", cell, gs, w, c.describeAccess(evs[accs[0].ev]))
			}
		}
	}
	if len(pairs) == 0 {
		return nil, 0, len(cons)
	}
	// solver session in its own scope
	sol := c.sol
	sol.sendRaw("(push 1)")
	for g, ns := range nodes {
		_ = g
		for _, n := range ns {
			sol.sendRaw("(declare-const " + n + " Int)")
		}
	}
	for _, cn := range cons {
		sol.sendRaw("(assert " + cn + ")")
	}
	sol.sendRaw("(declare-const acc_a Int)")
	sol.sendRaw("(declare-const acc_b Int)")
	bound := func(v string, m memAcc) string {
		var parts []string
		ns := nodes[m.g]
		if m.seg > 0 {
			parts = append(parts, fmt.Sprintf("(< %s %s)", ns[m.seg-1], v))
		}
		if m.seg < len(ns) {
			parts = append(parts, fmt.Sprintf("(< %s %s)", v, ns[m.seg]))
		}
		if len(parts) == 0 {
			return "true"
		}
		return "(and " + strings.Join(parts, " ") + " true)"
	}
	keys := make([]segKey, 0, len(pairs))
	for k := range pairs {
		keys = append(keys, k)
	}
	sort.Slice(keys, func(i, j int) bool {
		a, b := keys[i], keys[j]
		if a.g1 != b.g1 {
			return a.g1 < b.g1
		}
		if a.s1 != b.s1 {
			return a.s1 < b.s1
		}
		if a.g2 != b.g2 {
			return a.g2 < b.g2
		}
		return a.s2 < b.s2
	})
	var races []RaceReport
	seenPos := map[string]bool{}
	queries := 0
	for _, k := range keys {
		p := pairs[k]
		sol.sendRaw("(push 1)")
		sol.sendRaw("(assert " + bound("acc_a", p.a) + ")")
		sol.sendRaw("(assert " + bound("acc_b", p.b) + ")")
		sol.sendRaw("(push 1)")
		sol.sendRaw("(assert (< acc_a acc_b))")
		r1 := sol.check(nil, false)
		sol.sendRaw("(pop 1)")
		sol.sendRaw("(push 1)")
		sol.sendRaw("(assert (< acc_b acc_a))")
		r2 := sol.check(nil, false)
		sol.sendRaw("(pop 1)")
		sol.sendRaw("(pop 1)")
		queries += 2
		if r1 == resSat && r2 == resSat {
			ea, eb := evs[p.a.ev], evs[p.b.ev]
			pa, pb := c.describeAccess(ea), c.describeAccess(eb)
			key := pa + "|" + pb
			if seenPos[key] {
				continue
			}
			seenPos[key] = true
			races = append(races, RaceReport{
				Cell: fmt.Sprintf("0x%x", p.cell), A: pa, B: pb,
				Detail: fmt.Sprintf("unordered conflicting accesses: %s and %s", pa, pb),
			})
		} else if r1 == resUnknown || r2 == resUnknown {
			c.res.Uncertain = true
		}
	}
	sol.sendRaw("(pop 1)")
	return races, queries, len(cons)
}

func (c *pathCtx) describeAccess(e event) string {
	kind := "read"
	if e.kind == evWrite {
		kind = "write"
	}
	pos := "?"
	if c.fset != nil && e.pos.IsValid() {
		p := c.fset.Position(e.pos)
		pos = fmt.Sprintf("%s:%d", shortFile(p.Filename), p.Line)
	}
	fn := "?"
	if e.fn != nil {
		fn = e.fn.String()
	}
	return fmt.Sprintf("%s by g%d in %s at %s", kind, e.g, fn, pos)
}
