package interp

import (
	"fmt"
	"go/token"
	"go/types"
	"strings"
	"unsafe"

	"golang.org/x/tools/go/ssa"
)

type rtPanic string    // a Go runtime panic raised by the engine on behalf of the target
type engineBug string  // an engine limitation hit: never attributed to the target

func mustDeref(t types.Type) types.Type {
	if p, ok := t.Underlying().(*types.Pointer); ok {
		return p.Elem()
	}
	panic(fmt.Sprintf("mustDeref: %s is not a pointer", t))
}

func shortPos(i *interpreter, pos token.Pos) string {
	if pos == token.NoPos {
		return "?"
	}
	p := i.prog.Fset.Position(pos)
	return fmt.Sprintf("%s:%d", shortFile(p.Filename), p.Line)
}

func isSymScalarOrStr(v value) bool {
	switch v.(type) {
	case *Term, sstring:
		return true
	}
	return false
}

// ---------------------------------------------------------------------------
// Ordered maps (replace both Go maps and the stock hashmap): deterministic
// iteration, symbolic keys by forking on key equality.

type omap struct {
	keyT    types.Type
	keys    []value
	vals    []value
	idx     map[value]int // concrete comparable keys only
	symKeys int           // number of stored keys with symbolic parts
	fromInit bool
}

func newOmap(keyT types.Type) *omap {
	m := &omap{keyT: keyT, idx: make(map[value]int)}
	if cur == nil || cur.inInit {
		m.fromInit = true
	}
	return m
}

func goComparable(v value) bool {
	switch v.(type) {
	case bool, int, int8, int16, int32, int64, uint, uint8, uint16, uint32, uint64, uintptr, float64, float32, string, *value, *schan, *omap:
		return true
	}
	return false
}

func (m *omap) len() int {
	if m == nil {
		return 0
	}
	return len(m.keys)
}

func (m *omap) find(k value) int {
	if m == nil {
		return -1
	}
	if m.symKeys == 0 && goComparable(k) {
		if i, ok := m.idx[k]; ok {
			return i
		}
		// all stored keys are concrete; a concrete comparable probe that is
		// not in the index is absent (keys of one map share a type).
		allIdx := len(m.idx) == len(m.keys)
		if allIdx {
			return -1
		}
	}
	for i, sk := range m.keys {
		if truth(symEquals(m.keyT, sk, k)) {
			return i
		}
	}
	return -1
}

func (m *omap) lookup(k value) (value, bool) {
	if m != nil && cur != nil && cur.sched != nil && cur.sched.logEvents {
		cur.sched.logObj(evRead, unsafe.Pointer(m))
	}
	i := m.find(k)
	if i < 0 {
		return nil, false
	}
	return m.vals[i], true
}

func (m *omap) insert(k, v value) {
	if cur != nil && cur.sched != nil && cur.sched.logEvents {
		cur.sched.logObj(evWrite, unsafe.Pointer(m))
	}
	if m.fromInit && cur != nil && !cur.inInit {
		cur.globalWrite("update of a map created during package initialisation")
	}
	if i := m.find(k); i >= 0 {
		m.vals[i] = v
		return
	}
	m.keys = append(m.keys, k)
	m.vals = append(m.vals, v)
	if hasSym(k) {
		m.symKeys++
	} else if goComparable(k) {
		m.idx[k] = len(m.keys) - 1
	}
}

func (m *omap) delete(k value) {
	if m == nil {
		return
	}
	i := m.find(k)
	if i < 0 {
		return
	}
	if hasSym(m.keys[i]) {
		m.symKeys--
	}
	m.keys = append(m.keys[:i:i], m.keys[i+1:]...)
	m.vals = append(m.vals[:i:i], m.vals[i+1:]...)
	m.idx = make(map[value]int)
	for j, k := range m.keys {
		if !hasSym(k) && goComparable(k) {
			m.idx[k] = j
		}
	}
}

type omapIter struct {
	m    *omap
	keys []value
	pos  int
}

func (m *omap) iter(fr *frame) iter {
	it := &omapIter{m: m}
	if m != nil {
		it.keys = append([]value(nil), m.keys...)
		if cur != nil && cur.mapOrderExplore && len(it.keys) > 1 && len(it.keys) <= 4 && fr != nil && inTargetPkg(fr.fn) {
			// symbolic permutation: choose each next element
			perm := make([]value, 0, len(it.keys))
			rest := append([]value(nil), it.keys...)
			for len(rest) > 1 {
				k := cur.choose(len(rest))
				perm = append(perm, rest[k])
				rest = append(rest[:k:k], rest[k+1:]...)
			}
			perm = append(perm, rest[0])
			it.keys = perm
		}
	}
	return it
}

func inTargetPkg(fn *ssa.Function) bool {
	for fn.Parent() != nil {
		fn = fn.Parent()
	}
	return fn.Pkg != nil && fn.Pkg.Pkg.Path() == targetPkgPath
}

var targetPkgPath = "github.com/wkhere/bcl"

func (it *omapIter) next() tuple {
	for it.pos < len(it.keys) {
		k := it.keys[it.pos]
		it.pos++
		// still present?
		for i, mk := range it.m.keys {
			if sameKeyIdentity(mk, k) {
				return tuple{true, k, it.m.vals[i]}
			}
		}
	}
	return tuple{false, nil, nil}
}

func sameKeyIdentity(a, b value) bool {
	switch x := a.(type) {
	case sstring:
		y, ok := b.(sstring)
		return ok && len(x) == len(y) && (len(x) == 0 || &x[0] == &y[0])
	case *Term:
		return a == b
	case iface:
		y, ok := b.(iface)
		return ok && sameType(x.t, y.t) && sameKeyIdentity(x.v, y.v)
	case structure, array:
		return fmt.Sprintf("%p", x) == fmt.Sprintf("%p", b)
	}
	if goComparable(a) && goComparable(b) {
		return a == b
	}
	return false
}

// ---------------------------------------------------------------------------
// symbolic string iteration: decodes runes through the interpreted utf8 code.

type sstringIter struct {
	fr *frame
	s  sstring
	i  int
}

func (it *sstringIter) next() tuple {
	if it.i >= len(it.s) {
		return tuple{false, nil, nil}
	}
	rest := normStr([]value(it.s[it.i:]))
	fn := it.fr.i.prog.ImportedPackage("unicode/utf8").Func("DecodeRuneInString")
	res := callSSA(it.fr.i, it.fr, token.NoPos, fn, []value{rest}, nil).(tuple)
	r, n := res[0], res[1]
	idx := it.i
	it.i += int(concInt(n, "rune width"))
	return tuple{true, idx, r}
}

// ---------------------------------------------------------------------------
// indexing with symbolic indices

// symPtr is the address of base[idx] with a symbolic idx (scalar elements).
type symPtr struct {
	base []value
	idx  *Term
}

func elemIsScalar(t types.Type) bool {
	_, _, k := typeInfo(t)
	return k == 'i' || k == 'b' || k == 'f'
}

func boundsCheck(idx *Term, n int) {
	tt := cur.tt
	in := tt.Cmp(oUlt, tt.ZExt(idx, 64), tt.Const(uint64(n), 64))
	if idx.w < 64 {
		in = tt.Cmp(oUlt, tt.ZExt(idx, 64), tt.Const(uint64(n), 64))
	}
	if !cur.branch(in) {
		panic(rtPanic(fmt.Sprintf("runtime error: index out of range [symbolic] with length %d", n)))
	}
}

func indexAddr(instr *ssa.IndexAddr, x, idx value) value {
	var base []value
	switch x := x.(type) {
	case []value:
		base = x
	case *value: // *array
		if x == nil {
			panic(rtPanic("runtime error: invalid memory address or nil pointer dereference"))
		}
		base = []value((*x).(array))
	default:
		panic(engineBug(fmt.Sprintf("unexpected x type in IndexAddr: %T", x)))
	}
	if it, ok := idx.(*Term); ok {
		boundsCheck(it, len(base))
		elemT := mustDeref(instr.Type())
		if elemIsScalar(elemT) {
			return &symPtr{base: base, idx: it}
		}
		i := cur.concretize(it, "index of non-scalar element")
		return &base[i]
	}
	i := asInt64(idx)
	if i < 0 || i >= int64(len(base)) {
		panic(rtPanic(fmt.Sprintf("runtime error: index out of range [%d] with length %d", i, len(base))))
	}
	return &base[i]
}

// selectByIndex builds the ite-chain base[idx], grouping runs of equal values.
func selectByIndex(base []value, idx *Term) value {
	tt := cur.tt
	n := len(base)
	if n == 0 {
		panic(engineBug("selectByIndex on empty base"))
	}
	// all elements must be scalars of one width
	terms := make([]*Term, n)
	for i, v := range base {
		terms[i] = lift(v)
	}
	idx64 := tt.ZExt(idx, 64)
	res := terms[n-1]
	// walk runs from the end
	i := n - 1
	for i >= 0 {
		j := i
		for j > 0 && terms[j-1] == terms[i] {
			j--
		}
		// run [j..i] has value terms[i]
		if i != n-1 || true {
			var cond *Term
			if j == i {
				cond = tt.Cmp(oEq, idx64, tt.Const(uint64(i), 64))
			} else {
				cond = tt.BAnd(tt.Cmp(oUle, tt.Const(uint64(j), 64), idx64), tt.Cmp(oUle, idx64, tt.Const(uint64(i), 64)))
			}
			res = tt.Ite(cond, terms[i], res)
		}
		i = j - 1
	}
	return res
}

func indexVal(x, idx value) value {
	switch x := x.(type) {
	case array:
		if it, ok := idx.(*Term); ok {
			boundsCheck(it, len(x))
			allScalar := true
			for _, e := range x {
				switch e.(type) {
				case structure, array, iface, []value, string, sstring, *value:
					allScalar = false
				}
				if !allScalar {
					break
				}
			}
			if allScalar {
				return untermScalar(x[0], selectByIndex([]value(x), it))
			}
			return x[cur.concretize(it, "array index")]
		}
		i := asInt64(idx)
		if i < 0 || i >= int64(len(x)) {
			panic(rtPanic(fmt.Sprintf("runtime error: index out of range [%d] with length %d", i, len(x))))
		}
		return x[i]
	case string:
		if _, sym := idx.(*Term); !sym {
			i := asInt64(idx)
			if i < 0 || i >= int64(len(x)) {
				panic(rtPanic(fmt.Sprintf("runtime error: index out of range [%d] with length %d", i, len(x))))
			}
			return x[i]
		}
		return indexVal(sstring(strBytes(x)), idx)
	case sstring:
		b := []value(x)
		if it, ok := idx.(*Term); ok {
			boundsCheck(it, len(b))
			return untermScalar(uint8(0), selectByIndex(b, it))
		}
		i := asInt64(idx)
		if i < 0 || i >= int64(len(b)) {
			panic(rtPanic(fmt.Sprintf("runtime error: index out of range [%d] with length %d", i, len(b))))
		}
		return b[i]
	}
	panic(engineBug(fmt.Sprintf("unexpected x type in Index: %T", x)))
}

// untermScalar converts a constant term back to the Go type of like.
func untermScalar(like value, v value) value {
	t, ok := v.(*Term)
	if !ok || !t.isConst() {
		return v
	}
	switch like.(type) {
	case bool:
		return t.op == oTrue
	case int:
		return int(t.k)
	case int8:
		return int8(t.k)
	case int16:
		return int16(t.k)
	case int32:
		return int32(t.k)
	case int64:
		return int64(t.k)
	case uint:
		return uint(t.k)
	case uint8:
		return uint8(t.k)
	case uint16:
		return uint16(t.k)
	case uint32:
		return uint32(t.k)
	case uint64:
		return t.k
	case uintptr:
		return uintptr(t.k)
	}
	return v
}

func loadAt(T types.Type, addr value) value {
	switch a := addr.(type) {
	case *value:
		if a == nil {
			panic(rtPanic("runtime error: invalid memory address or nil pointer dereference"))
		}
		if cur != nil && cur.sched != nil && cur.sched.logEvents {
			cur.sched.logAccess(evRead, a)
		}
		return load(T, a)
	case *symPtr:
		return unlift(T, lift(selectByIndex(a.base, a.idx)))
	}
	panic(engineBug(fmt.Sprintf("load through %T", addr)))
}

func storeAt(T types.Type, addr value, v value) {
	switch a := addr.(type) {
	case *value:
		if a == nil {
			panic(rtPanic("runtime error: invalid memory address or nil pointer dereference"))
		}
		if cur != nil {
			if cur.sched != nil && cur.sched.logEvents {
				cur.sched.logAccess(evWrite, a)
			}
			if !cur.inInit && cur.globalCells[a] != "" {
				cur.globalWrite("store to package variable " + cur.globalCells[a])
			}
		}
		store(T, a, v)
		return
	case *symPtr:
		i := cur.concretize(a.idx, "store through symbolic index")
		a.base[i] = v
		return
	}
	panic(engineBug(fmt.Sprintf("store through %T", addr)))
}

func fieldAddr(x value, field int) value {
	p, ok := x.(*value)
	if !ok {
		panic(engineBug(fmt.Sprintf("FieldAddr on %T", x)))
	}
	if p == nil {
		panic(rtPanic("runtime error: invalid memory address or nil pointer dereference"))
	}
	return &(*p).(structure)[field]
}

// symSlice implements x[lo:hi:max] for strings, slices and *array, forking on
// symbolic bounds.
func symSlice(x, lo, hi, max value) value {
	var Len, Cap int
	switch x := x.(type) {
	case string:
		Len = len(x)
		Cap = Len
	case sstring:
		Len = len(x)
		Cap = Len
	case []value:
		Len = len(x)
		Cap = cap(x)
	case *value: // *array
		if x == nil {
			panic(rtPanic("runtime error: invalid memory address or nil pointer dereference"))
		}
		a := (*x).(array)
		Len = len(a)
		Cap = cap(a)
	}
	l := int64(0)
	if lo != nil {
		l = concInt(lo, "slice low bound")
	}
	h := int64(Len)
	if hi != nil {
		h = concInt(hi, "slice high bound")
	}
	m := int64(Cap)
	if max != nil {
		m = concInt(max, "slice max bound")
	}
	limit := int64(Cap)
	if l < 0 || h < l || m < h || m > limit {
		panic(rtPanic(fmt.Sprintf("runtime error: slice bounds out of range [%d:%d:%d] with capacity %d", l, h, m, limit)))
	}
	switch x := x.(type) {
	case string:
		return x[l:h]
	case sstring:
		return normStr([]value(x[l:h]))
	case []value:
		return x[l:h:m]
	case *value: // *array
		a := (*x).(array)
		return []value(a)[l:h:m]
	}
	panic(engineBug(fmt.Sprintf("slice: unexpected X type: %T", x)))
}

// symConv handles conversions involving symbolic scalars and strings.
func symConv(t_dst, t_src types.Type, x value) (value, bool) {
	switch xv := x.(type) {
	case *Term:
		_, _, dk := typeInfo(t_dst)
		if dk == 's' {
			// string(rune) with a symbolic rune: ASCII gives one byte; anything
			// else is concretised.
			tt := cur.tt
			r := xv
			if r.w < 32 {
				r = tt.ZExt(r, 32)
			}
			if cur.branch(tt.Cmp(oUlt, tt.ZExt(r, 64), tt.Const(0x80, 64))) {
				return normStr([]value{unlift(types.Typ[types.Uint8], tt.Extract(r, 7, 0))}), true
			}
			v := cur.concretize(r, "string(rune) of a non-ASCII symbolic rune")
			return string(rune(int32(v))), true
		}
		return symConvScalar(t_dst, t_src, xv), true
	case sstring:
		switch ut := t_dst.Underlying().(type) {
		case *types.Basic:
			if ut.Kind() == types.String {
				return x, true
			}
		case *types.Slice:
			switch ut.Elem().Underlying().(*types.Basic).Kind() {
			case types.Byte:
				return append([]value(nil), []value(xv)...), true
			case types.Rune:
				panic(engineBug("[]rune(symbolic string) not supported"))
			}
		}
	case []value:
		// []byte -> string with symbolic bytes
		if bt, ok := t_dst.Underlying().(*types.Basic); ok && bt.Kind() == types.String {
			if st, ok := t_src.Underlying().(*types.Slice); ok {
				if eb, ok := st.Elem().Underlying().(*types.Basic); ok && eb.Kind() == types.Byte {
					return normStr(append([]value(nil), xv...)), true
				}
			}
		}
	}
	return nil, false
}

func symMinMax(t types.Type, args []value, isMin bool) value {
	res := args[0]
	for _, a := range args[1:] {
		var lt value
		if isMin {
			lt = binop(token.LSS, t, a, res)
		} else {
			lt = binop(token.LSS, t, res, a)
		}
		if c, ok := lt.(*Term); ok {
			res = unlift(t, cur.tt.Ite(c, lift(a), lift(res)))
		} else if lt.(bool) {
			res = a
		}
	}
	return res
}

// ---------------------------------------------------------------------------
// select

func doSelect(fr *frame, instr *ssa.Select) value {
	var cases []scase
	for _, state := range instr.States {
		ch, _ := fr.get(state.Chan).(*schan)
		c := scase{ch: ch}
		if state.Dir == types.SendOnly {
			c.send = true
			c.val = fr.get(state.Send)
		}
		cases = append(cases, c)
	}
	chosen, recv, recvOk := cur.sched.selectOp(cases, !instr.Blocking, "select at "+shortPos(fr.i, instr.Pos()))
	r := tuple{chosen, recvOk}
	for i, st := range instr.States {
		if st.Dir == types.RecvOnly {
			var v value
			if i == chosen && recvOk {
				v = recv
			} else {
				v = zero(st.Chan.Type().Underlying().(*types.Chan).Elem())
			}
			r = append(r, v)
		}
	}
	return r
}

// ---------------------------------------------------------------------------
// bookkeeping

func (c *pathCtx) noteFunc(fn *ssa.Function, args []value) {
	if c.funcs == nil {
		return
	}
	root := fn
	for root.Parent() != nil {
		root = root.Parent()
	}
	if root.Pkg == nil {
		return
	}
	p := root.Pkg.Pkg.Path()
	if p != targetPkgPath && !strings.HasPrefix(p, targetPkgPath+"/") && p != "github.com/mohae/uvarint" {
		return
	}
	name := fn.String()
	if c.funcs[name] {
		return
	}
	c.funcs[name] = true
}

func (c *pathCtx) globalWrite(what string) {
	what = what + " at " + c.posString()
	for _, w := range c.res.GlobalWrites {
		if w == what {
			return
		}
	}
	c.res.GlobalWrites = append(c.res.GlobalWrites, what)
}
