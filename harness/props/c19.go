package props

import (
	"strings"

	"github.com/wkhere/bcl"

	"verifharness/refbcl"
	"verifharness/symio"
	"verifharness/verif"
)

var c19Programs = []string{
	"var x = 1001\nprint x < 1002 and \"lt\" or \"ge\"\ndef b \"n\" {\n f = x\n def c {\n g = f + 1002\n}\n}\nbind b -> struct\n",
	"print \"a\"\nprint 1001 / 1002\nprint \"b\"\n",
	"def t {\n f = 1001\n}\ndef t {\n f = 1002\n}\nbind t:first -> slice\nbind t:last -> struct\nprint \"done\"\n",
	"print 1 +\n",          // rejected
	"print y\n",            // rejected (undefined)
	"def t {\n g = y\n}\n", // runtime error
	"print \"x\" - 1\n",    // runtime error
	"var a = 1001 or 1002\nvar b = a and 1003\nprint \"r\"\neval a = b\n",
	"",
	"print \"a\"\nprint 1001 / 1002\n", // runtime error raised by the last token of the last line
	"print 1001 / 1002",                // the same without a final newline
	"def t {\n}\nbind t -> struct\nbind t -> struct\n",              // warning from the last line
	"def a {\n def b {\n }\n var x = b\n var y = b\n f = 1001\n}\n", // block values in adjacent stack slots
	"def a {\n def b {\n }\n var x = b\n eval x == b\n}\n",          // runtime error on block operands
	// a runtime error raised by the last token of a line that is 2, 3, 4 lines above the end
	"print 1001 / 1002\nprint \"f\"\nprint \"g\"\n",
	"def b {\n  x = 1001/1002\n  y = 2\n}\n",
	"def b {\n  x = 1001/1002\n  y = 2\n  z = 3\n}\nprint \"f\"\n",
	"print \"a\"\n\n\nprint 1001 / 1002\n\n\n\nprint \"z\"\n",
	// long strings on the stack, in fields and in the binding (256/257 bytes, 4800 bytes)
	"var s = \"abcdefgh\" * 32\nprint s\ndef t {\n f = s\n g = s + \"!\"\n h = g + g\n}\nbind t -> struct\nprint s + \"?\"\n",
	"print \"0123456789abcdef\" * 300\ndef t {\n f = \"0123456789abcdef\" * 300\n}\n",
}

// introspection lines: stack dumps, instruction lines, statistics, header
func c19IsIntrospection(line string) bool {
	switch {
	case strings.HasPrefix(line, "             "):
		return true
	case strings.HasPrefix(line, "pstats."), strings.HasPrefix(line, "xstats."):
		return true
	case strings.HasPrefix(line, "== "):
		return true
	case len(line) >= 5 && line[4] == ' ' && isDigits(line[:4]):
		return true
	}
	return false
}

func isDigits(s string) bool {
	for i := 0; i < len(s); i++ {
		if s[i] < '0' || s[i] > '9' {
			return false
		}
	}
	return true
}

func c19Split(text string) (program []string, instr []string, other []string) {
	for _, line := range strings.Split(text, "\n") {
		if line == "" {
			continue
		}
		switch {
		case len(line) >= 5 && line[4] == ' ' && isDigits(line[:4]):
			instr = append(instr, line)
		case c19IsIntrospection(line):
			other = append(other, line)
		default:
			program = append(program, line)
		}
	}
	return
}

type c19Run struct {
	ParseErr, ExecErr error
	ParseOut, ExecOut string
	Log               string
	Blocks            []bcl.Block
	Binding           bcl.Binding
	Prog              *bcl.Prog
}

func c19Do(src string, values map[string]any, opts ...bcl.Option) c19Run {
	var r c19Run
	out, log := &symio.Writer{}, &symio.Writer{}
	o := append([]bcl.Option{bcl.OptOutput(out), bcl.OptLogger(log)}, opts...)
	p, err := bcl.Parse([]byte(src), "src", o...)
	r.ParseErr = err
	r.ParseOut = out.String()
	out.Buf = nil
	if err == nil {
		var phs, vals []any
		for text, v := range values {
			phs = append(phs, placeholderValue(text))
			vals = append(vals, v)
		}
		patchConsts(p, phs, vals)
		r.Prog = p
		r.Blocks, r.Binding, r.ExecErr = bcl.Execute(p, o...)
		r.ExecOut = out.String()
	}
	r.Log = log.String()
	return r
}

// C19_Observe: disassembly, tracing and statistics (all eight combinations,
// symbolic option values) never change blocks, binding, errors, diagnostics
// or the lines the program prints; disassembly lists every instruction once
// at its offset; the trace lists as many instructions as the statistics say.
func C19_Observe() {
	progs := c19Programs
	if verif.Tier() == 1 {
		// thorough: also the boolean-heavy programs of C10
		progs = append(append([]string(nil), c19Programs...), c10Programs...)
	}
	c19Observe(progs[verif.Choice("prog", len(progs))], true)
}

// C19_Limits: CONCRETE INSTANCES - the same observations on programs that end
// at an implementation limit (operand stack, block stack): the instruction
// that does not run is not traced, the error is the same with every option.
func C19_Limits() {
	var src string
	switch verif.Choice("prog", 4) {
	case 0: // 1023 variables, then an expression that needs two more slots
		for i := 0; i < 1023; i++ {
			src += "var v" + itoa(i) + " = " + itoa(i) + "\n"
		}
		src += "print v0 + v1\n"
	case 1: // 1024 variables, then a variable read
		for i := 0; i < 1024; i++ {
			src += "var v" + itoa(i) + "\n"
		}
		src += "print v0\n"
	case 2: // 17 nested blocks
		for i := 0; i < 17; i++ {
			src += "def b" + itoa(i) + " {\n"
		}
		src += "f = 1\n"
		for i := 0; i < 17; i++ {
			src += "}\n"
		}
	case 3: // 1022 variables and an expression that just fits
		for i := 0; i < 1022; i++ {
			src += "var v" + itoa(i) + "\n"
		}
		src += "print 1 + 2\nprint \"end\"\n"
	}
	c19Observe(src, false)
}

func c19Observe(src string, placeholders bool) {
	values := map[string]any{}
	for _, text := range []string{"1001", "1002", "1003"} {
		if placeholders && containsStr(src, text) {
			values[text] = verif.Int("k" + text)
		}
	}
	dis, trace, stats := verif.Bool("disasm"), verif.Bool("trace"), verif.Bool("stats")
	base := c19Do(src, values)
	with := c19Do(src, values, bcl.OptDisasm(dis), bcl.OptTrace(trace), bcl.OptStats(stats))
	verif.Observe("parse-err", base.ParseErr != nil)
	verif.Assert(errText(base.ParseErr) == errText(with.ParseErr), "same parse error")
	verif.Assert(base.Log == with.Log, "same diagnostics and warnings on the log writer")
	if base.ParseErr != nil {
		verif.Reach("rejected")
		_, instr, _ := c19Split(with.ParseOut)
		verif.Assert(len(instr) == 0, "no disassembly of a rejected program")
		return
	}
	verif.Assert(errText(base.ExecErr) == errText(with.ExecErr), "same runtime error")
	verif.Assert(blocksEqual(base.Blocks, with.Blocks), "same blocks")
	verif.Assert(bindingEqual(base.Binding, with.Binding), "same binding")
	bp, _, _ := c19Split(base.ExecOut)
	wp, wInstr, wOther := c19Split(with.ExecOut)
	verif.Assert(strings.Join(bp, "\n") == strings.Join(wp, "\n"), "same lines printed by the program")
	verif.Assert(base.ParseOut == "", "nothing on the output writer at parse time without options")
	// disassembly: each instruction once at its offset
	_, dInstr, _ := c19Split(with.ParseOut)
	if dis {
		verif.Reach("disasm")
		ins, ok := refbcl.DecodeCode(bcl.VerifCode(with.Prog))
		verif.Assert(ok && len(dInstr) == len(ins), "disassembly lists each instruction once")
		if ok && len(dInstr) == len(ins) {
			for i, in := range ins {
				verif.Assert(dInstr[i][:4] == pad4(in.PC), "disassembly offset is the instruction start")
			}
		}
	} else {
		verif.Assert(len(dInstr) == 0, "no disassembly unless asked")
	}
	if trace {
		verif.Reach("trace")
		if stats {
			// xstats.opsRead: <n>
			n := -1
			for _, l := range wOther {
				if strings.HasPrefix(l, "xstats.opsRead:") {
					n = atoi(strings.TrimSpace(l[len("xstats.opsRead:"):]))
				}
			}
			verif.Assert(n == len(wInstr), "trace lists as many instructions as the statistics report")
			verif.Reach("trace+stats")
		}
	} else {
		verif.Assert(len(wInstr) == 0, "no trace unless asked")
	}
	if !trace && !stats {
		verif.Assert(with.ExecOut == base.ExecOut, "identical output without trace and stats")
	}
	verif.Reach("compared")
}

func pad4(n int) string {
	s := itoa(n)
	for len(s) < 4 {
		s = "0" + s
	}
	return s
}

func atoi(s string) int {
	n := 0
	for i := 0; i < len(s); i++ {
		if s[i] < '0' || s[i] > '9' {
			return -1
		}
		n = n*10 + int(s[i]-'0')
	}
	return n
}

// C19_SeparateWriters: the program prints to the writer given at Parse time
// whatever is passed to Execute; introspection text of the execution goes to
// Execute's writer or the program's, never replacing the program's lines.
func C19_SeparateWriters() {
	src := c19Programs[verif.Choice("prog", 3)]
	values := map[string]any{}
	for _, text := range []string{"1001", "1002", "1003"} {
		if containsStr(src, text) {
			values[text] = verif.Int("k" + text)
		}
	}
	run := func(opts ...bcl.Option) (string, error) {
		w, log := &symio.Writer{}, &symio.Writer{}
		p, err := bcl.Parse([]byte(src), "src", bcl.OptOutput(w), bcl.OptLogger(log))
		if err != nil {
			panic("rejected")
		}
		var phs, vals []any
		for text, v := range values {
			phs = append(phs, placeholderValue(text))
			vals = append(vals, v)
		}
		patchConsts(p, phs, vals)
		_, _, xerr := bcl.Execute(p, opts...)
		prog, _, _ := c19Split(w.String())
		return strings.Join(prog, "\n"), xerr
	}
	base, e0 := run()
	other := &symio.Writer{}
	with, e1 := run(bcl.OptOutput(other), bcl.OptTrace(verif.Bool("trace")), bcl.OptStats(verif.Bool("stats")))
	verif.Assert(errText(e0) == errText(e1), "same error")
	verif.Assert(base == with, "the program's lines stay on the writer given at Parse time")
	op, _, _ := c19Split(other.String())
	verif.Assert(len(op) == 0, "no program output on Execute's writer")
	verif.Reach("compared")
}
