package props

import (
	"bytes"
	"strings"

	"github.com/wkhere/bcl"

	"verifharness/refbcl"
	"verifharness/symio"
	"verifharness/verif"
)

var c20Programs = []string{
	"var x = 1 + 2 * 3\nprint x == 7 and \"seven\" or \"other\"\n",
	"def blk \"nm\" {\n f = -1 <= 2\n def in {\n g = f != true\n}\n}\nbind blk:first -> slice\n",
	"var a = 10\neval a = a / 3 - 1\nprint not a >= 2\nprint (a)\n",
	"print 1 +\n",          // rejected
	"def t {\n x = y\n}\n", // runtime error
	"print \"a\" + 1.5e1\nprint 0x1F;print nil\n",
	"eval a eval b\nprint 1 +\nvar = 2 print )\n", // rejected, several faulty statements
}

// c20Separator returns 1..2 symbolic bytes constrained to be layout per the
// reference predicate: whitespace characters (incl. the two-byte U+0085 and
// U+00A0), or a comment '#' + arbitrary non-EOL bytes + EOL.
func c20Separator(name string) string {
	return c20SeparatorOf(name, 3)
}

// c20SeparatorOf limits the separator to the first `kinds` kinds.
func c20SeparatorOf(name string, kinds int) string {
	switch verif.Choice(name+"kind", kinds) {
	case 0: // one whitespace byte
		b := verif.Byte(name)
		verif.Assume(b == ' ' || b == '\t' || b == '\v' || b == '\f' || b == '\n' || b == '\r')
		return string([]byte{b})
	case 1: // two bytes: two whitespace bytes, or one of the two-byte characters
		p := verif.Bytes(name, 2)
		ws := func(b byte) bool {
			return b == ' ' || b == '\t' || b == '\v' || b == '\f' || b == '\n' || b == '\r'
		}
		verif.Assume((ws(p[0]) && ws(p[1])) || (p[0] == 0xC2 && (p[1] == 0x85 || p[1] == 0xA0)))
		return string(p)
	default: // comment with two arbitrary bytes, ended by CR or LF
		p := verif.Bytes(name, 3)
		verif.Assume(p[0] != '\n' && p[0] != '\r' && p[1] != '\n' && p[1] != '\r')
		verif.Assume(p[2] == '\n' || p[2] == '\r')
		return "#" + string(p)
	}
}

type c20Compiled struct {
	Err    error
	Diags  []string // diagnostics without their positions
	Code   []byte
	Consts []any
	Run    realRun
}

// c20Diags strips 'line L:C: ' from each diagnostic line of a log.
func c20Diags(log string) []string {
	var out []string
	for _, l := range strings.Split(log, "\n") {
		if !strings.HasPrefix(l, "line ") {
			continue
		}
		if i := strings.Index(l, ": "); i >= 0 {
			l = l[i+2:]
		}
		out = append(out, l)
	}
	return out
}

func c20Compile(src string) c20Compiled {
	out, log := &symio.Writer{}, &symio.Writer{}
	p, err := bcl.Parse([]byte(src), "src", bcl.OptOutput(out), bcl.OptLogger(log))
	c := c20Compiled{Err: err, Diags: c20Diags(log.String())}
	if err == nil {
		c.Code = bcl.VerifCode(p)
		c.Consts = bcl.VerifConsts(p)
		c.Run = executeReal(p, out, log)
	}
	return c
}

func c20Same(a, b c20Compiled) {
	verif.Assert((a.Err == nil) == (b.Err == nil), "same acceptance")
	if a.Err != nil || b.Err != nil {
		// rejected: the same diagnostics; only their positions differ
		same := len(a.Diags) == len(b.Diags)
		if same {
			for i := range a.Diags {
				same = same && a.Diags[i] == b.Diags[i]
			}
		}
		verif.Assert(same, "same diagnostics apart from positions")
		verif.Reach("rejected")
		return
	}
	verif.Assert(bytes.Equal(a.Code, b.Code), "same instructions")
	same := len(a.Consts) == len(b.Consts)
	if same {
		for i := range a.Consts {
			if a.Consts[i] != b.Consts[i] {
				same = false
			}
		}
	}
	verif.Assert(same, "same constants")
	verif.Assert(a.Run.Out == b.Run.Out, "same output")
	verif.Assert(blocksEqual(a.Run.Blocks, b.Run.Blocks), "same blocks")
	verif.Assert(bindingEqual(a.Run.Binding, b.Run.Binding), "same binding")
	verif.Assert(errClass(a.Run.Err) == errClass(b.Run.Err), "same error class")
	verif.Reach("accepted")
}

// C20_Gaps: the token sequence of a program re-rendered with a symbolic
// separator in one or two gaps (every gap position), against the canonical
// single-space rendering.
func C20_Gaps() {
	src := c20Programs[verif.Choice("prog", len(c20Programs))]
	toks := refbcl.Tokens(src)
	n := 0
	for _, t := range toks {
		if t.Kind != refbcl.KEOF && t.Kind != refbcl.KErr {
			n++
		}
	}
	// gaps 0..n: before the first token, between tokens, after the last
	g1 := verif.Choice("gap1", n+1)
	g2 := -1
	if verif.Tier() == 1 {
		// thorough: a second varied gap, the one that follows the first, with
		// one arbitrary whitespace byte (all pairs of gaps, and the three
		// following gaps with every separator kind, did not finish within the
		// thorough budget)
		g2 = g1 + 1
		if g2 > n {
			g2 = -1
		}
	}
	sep1 := c20Separator("sep1")
	sep2 := ""
	if g2 >= 0 && g2 != g1 {
		sep2 = c20SeparatorOf("sep2", 1)
	}
	canon, varied := "", ""
	for i := 0; i < n; i++ {
		gap := " "
		if i == 0 {
			gap = ""
		}
		canon += gap + toks[i].Text
		// the separator replaces the canonical space (before the first token it
		// is simply inserted)
		switch i {
		case g1:
			gap = sep1
		case g2:
			if sep2 != "" {
				gap = sep2
			}
		}
		varied += gap + toks[i].Text
	}
	if g1 == n {
		varied += sep1
	}
	if g2 == n && g2 != g1 {
		varied += sep2
	}
	verif.Observe("canon", canon)
	c20Same(c20Compile(canon), c20Compile(varied))
}

// C20_Glue: a gap of width zero wherever the reference tokenizer says the
// neighbours cannot merge or stick (punctuation next to anything except the
// pairs that form two-character operators).
func C20_Glue() {
	src := c20Programs[verif.Choice("prog", len(c20Programs))]
	toks := refbcl.Tokens(src)
	var texts []string
	var kinds []int
	for _, t := range toks {
		if t.Kind != refbcl.KEOF && t.Kind != refbcl.KErr {
			texts = append(texts, t.Text)
			kinds = append(kinds, t.Kind)
		}
	}
	canon, glued := "", ""
	for i, t := range texts {
		if i > 0 {
			canon += " "
			a, b := texts[i-1], t
			punctA, punctB := kinds[i-1] == refbcl.KPunct, kinds[i] == refbcl.KPunct
			merge := false
			if punctA && punctB {
				la, fb := a[len(a)-1], b[0]
				merge = ((la == '=' || la == '!' || la == '<' || la == '>') && fb == '=') || (la == '-' && fb == '>')
			}
			if !(punctA || punctB) || merge {
				glued += " "
			}
		}
		canon += t
		glued += t
	}
	verif.Observe("glued", glued)
	c20Same(c20Compile(canon), c20Compile(glued))
}

// C20_Parens: redundant parentheses and optional semicolons.
func C20_Parens() {
	pairs := [][2]string{
		{"print 1001 + 1002 * 1003", "print (1001) + ((1002) * 1003)"},
		{"print 1001 + 1002 * 1003", "print ((1001 + (1002 * (1003))))"},
		{"print 1001 - 1002 - 1003", "print (1001 - 1002) - 1003"},
		{"print not 1001 == 1002 and 1003", "print (not (1001 == 1002)) and (1003)"},
		{"var x = 1001\nprint x", "var x = (1001);\nprint (x);"},
		{"def t {\n f = 1001\n g = f + 1002\n}", "def t {\n f = (1001);\n g = ((f) + 1002);\n};"},
		{"var x = 0\neval x = 1001 or 1002", "var x = 0;eval x = ((1001) or (1002));"},
		{"print -1001", "print -(1001)"},
		{"print (1001 = 1002)", "print 1001 = 1002"}, // both rejected
	}
	i := verif.Choice("pair", len(pairs))
	pr := pairs[i]
	a, b := c20Compile(pr[0]), c20Compile(pr[1])
	if i == 8 {
		// an assignment to a literal is no expression, parenthesised or not:
		// both are rejected (for different reasons)
		verif.Assert(a.Err != nil && b.Err != nil, "both rejected")
		verif.Reach("rejected")
		return
	}
	c20Same(a, b)
}

// C20_PrefixLiteral: CONCRETE INSTANCES - a prefix operator applied to a
// literal at the limits of its range means the same with the literal in
// parentheses (both accepted with the same constant, or both rejected).
func C20_PrefixLiteral() {
	lits := []string{
		"0", "1", "9223372036854775806", "9223372036854775807", "9223372036854775808", "9223372036854775809",
		"18446744073709551615", "18446744073709551616", "0x7fffffffffffffff", "0x8000000000000000", "0xffffffffffffffff",
		"0777777777777777777777", "01000000000000000000000", "1.7976931348623157e308", "1e309", "0.0", "4.9e-324", "1e-400",
		"\"s\"", "true", "nil",
	}
	lit := lits[verif.Choice("lit", len(lits))]
	op := []string{"-", "- -", "not ", "-  ", "1 - ", "1--"}[verif.Choice("op", 6)]
	c20Same(c20Compile("print "+op+lit), c20Compile("print "+op+"("+lit+")"))
	c20Same(c20Compile("var x = "+op+lit+"\nprint x"), c20Compile("var x = ("+op+"(("+lit+")))\nprint x"))
}

// C20_StringContent: nothing inside a string literal is layout: the bytes
// between the quotes reach the constant one for one.
func C20_StringContent() {
	p := verif.Bytes("content", 3)
	for _, b := range p {
		// ASCII other than quote, backslash and LF (the string syntax of the
		// language); layout characters and '#', ';', parentheses included
		verif.Assume(b != '"' && b != '\\' && b != '\n' && b < 0x80 && (b >= 0x20 || b == '\t' || b == '\r' || b == '\v' || b == '\f'))
	}
	src := "var s = \"" + string(p) + "\" # c\nprint s\n"
	c := c20Compile(src)
	verif.Assert(c.Err == nil, "string literal accepted")
	if c.Err != nil {
		return
	}
	found := false
	for _, k := range c.Consts {
		if s, ok := k.(string); ok && s == string(p) {
			found = true
		}
	}
	verif.Assert(found, "content reaches the constant byte for byte")
	verif.Assert(c.Run.Out == string(p)+"\n", "content is printed byte for byte")
	verif.Reach("accepted")
}

// C20_CommentEnd: a comment ends at the next CR or LF and nowhere else.
func C20_CommentEnd() {
	p := verif.Bytes("c", 2)
	verif.Assume(p[0] != '\n' && p[0] != '\r' && p[1] != '\n' && p[1] != '\r')
	eol := verif.Byte("eol")
	verif.Assume(eol == '\n' || eol == '\r')
	src := "print 1 #" + string(p) + " print 2" + string([]byte{eol}) + "print 3\n"
	c20Same(c20Compile("print 1 print 3"), c20Compile(src))
}

// C20_CommentSplit: a comment cut by a read boundary (ParseFile) at any place,
// its terminating CR or LF being the first byte of a read included, ends at
// that CR or LF and nowhere else.
func C20_CommentSplit() {
	eol := verif.Byte("eol")
	verif.Assume(eol == '\n' || eol == '\r')
	c := verif.Bytes("c", 2)
	verif.Assume(c[0] != '\n' && c[0] != '\r' && c[1] != '\n' && c[1] != '\r')
	src := "print 1 #" + string(c) + string([]byte{eol}) + "print 2\nprint 3\n"
	// the read boundary: right after '#', inside the comment, before the end
	// of line, after it
	cut := len("print 1 #") + verif.Choice("cut", 4)
	w := c07Whole([]byte(src))
	f := c07File(&symio.File{Data: []byte(src), Script: []symio.Step{{N: cut}}, FileName: "file"})
	c07Compare(w, f)
	if w.Err == nil {
		out, log := &symio.Writer{}, &symio.Writer{}
		p, _ := bcl.ParseFile(&symio.File{Data: []byte(src), Script: []symio.Step{{N: cut}}, FileName: "file"}, bcl.OptOutput(out), bcl.OptLogger(log))
		if p != nil {
			bcl.Execute(p)
			verif.Assert(out.String() == "1\n2\n3\n", "the statements after the comment run")
		}
	}
}

// C20_DeepParens: CONCRETE INSTANCES - any number of redundant parentheses.
func C20_DeepParens() {
	n := []int{1, 16, 255, 511, 512, 513, 600, 1000}[verif.Choice("n", 8)]
	inner := []string{"1 + 2", "x"}[verif.Choice("inner", 2)]
	src := "var x = 5\nprint " + strings.Repeat("(", n) + inner + strings.Repeat(")", n) + " * 2\n"
	canon := "var x = 5\nprint (" + inner + ") * 2\n"
	c20Same(c20Compile(canon), c20Compile(src))
}

// C20_StringSplit: three arbitrary bytes inside a string literal right after a
// read boundary (ParseFile) reach the value as they do with Parse.
func C20_StringSplit() {
	p := verif.Bytes("content", 3)
	for _, b := range p {
		verif.Assume(b != '"' && b != '\\' && b != '\n')
	}
	pre := "print \"ab"
	src := pre + string(p) + "cd\"\n"
	w := c07Whole([]byte(src))
	f := c07File(&symio.File{Data: []byte(src), Script: []symio.Step{{N: len(pre)}}, FileName: "file"})
	c07Compare(w, f)
}
