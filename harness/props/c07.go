package props

import (
	"bytes"
	"io"
	"strings"

	"github.com/wkhere/bcl"

	"verifharness/symio"
	"verifharness/verif"
)

var c07Contexts = [][2]string{
	{"print 1 ", " 2"},           // between tokens / operators
	{"print \"a", "b\""},         // inside a string literal
	{"# c", "\nprint 1"},         // inside a comment
	{"var ab = 1\nprint ab", ""}, // identifier tail
	{"print 1", "2"},             // glued to numbers: two-character operators, floats
}

type c07Outcome struct {
	Err  error
	Log  string
	Dump []byte
}

func c07Whole(src []byte) c07Outcome {
	out, log := &symio.Writer{}, &symio.Writer{}
	p, err := bcl.Parse(src, "file", bcl.OptOutput(out), bcl.OptLogger(log))
	o := c07Outcome{Err: err, Log: log.String()}
	if err == nil {
		var b bytes.Buffer
		if p.Dump(&b) != nil {
			panic("dump failed")
		}
		o.Dump = b.Bytes()
	}
	return o
}

func c07File(f *symio.File) c07Outcome {
	out, log := &symio.Writer{}, &symio.Writer{}
	p, err := bcl.ParseFile(f, bcl.OptOutput(out), bcl.OptLogger(log))
	o := c07Outcome{Err: err, Log: log.String()}
	if err == nil {
		var b bytes.Buffer
		if p.Dump(&b) != nil {
			panic("dump failed")
		}
		o.Dump = b.Bytes()
	}
	return o
}

func c07Compare(w, f c07Outcome) {
	verif.Observe("whole-err", w.Err != nil)
	verif.Observe("file-err", f.Err != nil)
	verif.Assert((w.Err == nil) == (f.Err == nil), "same success or failure")
	verif.Assert(w.Log == f.Log, "same diagnostic text")
	if w.Err == nil && f.Err == nil {
		verif.Reach("both-parsed")
		verif.Assert(bytes.Equal(w.Dump, f.Dump), "byte-identical compiled program")
	} else {
		verif.Reach("rejected")
	}
}

// c07Script builds the reader script for a split mode at cut k:
// 0 = two reads, 1 = two reads with a zero-byte read between them,
// 2 = three reads (k, 1 byte, rest), 3 = two reads, the second with io.EOF.
func c07Script(k, mode int) []symio.Step {
	switch mode {
	case 0:
		return []symio.Step{{N: k}}
	case 1:
		return []symio.Step{{N: k}, {N: 0}}
	case 2:
		return []symio.Step{{N: k}, {N: 1}}
	default:
		// the last read delivers its data together with io.EOF
		return []symio.Step{{N: k}, {N: 1 << 20, Err: io.EOF}}
	}
}

// C07_Split1: one arbitrary byte in five contexts, every cut within two bytes
// of it, three split modes.
func C07_Split1() {
	ctx := verif.Choice("context", len(c07Contexts))
	b := verif.Byte("b")
	pre, suf := c07Contexts[ctx][0], c07Contexts[ctx][1]
	src := append(append([]byte(pre), b), suf...)
	P := len(pre)
	lo := P - 2
	cuts := 5
	if P+3 > len(src) {
		cuts = len(src) - lo + 1
	}
	k := lo + verif.Choice("cut", cuts)
	mode := verif.Choice("mode", 4)
	verif.Observe("cut", k)
	w := c07Whole(src)
	f := c07File(&symio.File{Data: src, Script: c07Script(k, mode), FileName: "file"})
	c07Compare(w, f)
}

// C07_Split2: two arbitrary bytes (covers every two-byte UTF-8 character
// incl. U+0085/U+00A0 and every two-character operator), cut between them.
func C07_Split2() {
	nctx := 3
	if verif.Tier() == 1 {
		nctx = len(c07Contexts)
	}
	ctx := verif.Choice("context", nctx)
	pl := verif.Bytes("payload", 2)
	pre, suf := c07Contexts[ctx][0], c07Contexts[ctx][1]
	src := append(append([]byte(pre), pl...), suf...)
	k := len(pre) + 1
	mode := 0
	if verif.Tier() == 1 {
		k = len(pre) + verif.Choice("cut", 3)
		mode = verif.Choice("mode", 3)
	}
	w := c07Whole(src)
	f := c07File(&symio.File{Data: src, Script: c07Script(k, mode), FileName: "file"})
	c07Compare(w, f)
}

// C07_Page: the 4096-byte reads ParseFile really performs, with the
// symbolic window straddling offset 4096 at every alignment.
func C07_Page() {
	ctx := verif.Choice("context", 3)
	align := verif.Choice("align", 4)
	n := 1 + verif.Tier()
	pl := verif.Bytes("payload", n)
	pre, suf := c07Contexts[ctx][0], c07Contexts[ctx][1]
	// pad so that the payload starts at 4096-align
	padLen := 4096 - align - len(pre)
	pad := strings.Repeat("#", padLen-1) + "\n"
	src := append([]byte(pad+pre), pl...)
	src = append(src, suf...)
	w := c07Whole(src)
	f := c07File(&symio.File{Data: src, FileName: "file"})
	verif.Observe("reads", f.Log == w.Log)
	c07Compare(w, f)
}

// c07Glued: places where the lexer has just emitted a token without looking
// ahead (punctuation, a completed two-character operator, start of input).
var c07Glued = [][2]string{
	{"", "print 1"},
	{"print (", "1)"},
	{"print 1 ==", "2"},
	{"def t {", "}"},
	{"print 1 +", "2"},
	{"print 1;", "print 2"},
	{"def t \"x\"", "{}"},
}

// C07_Glued: two arbitrary bytes (every two-byte character) directly after a
// token that needed no look-ahead, with the read boundary between them.
func C07_Glued() {
	nctx := 4
	if verif.Tier() == 1 {
		nctx = len(c07Glued)
	}
	ctx := verif.Choice("context", nctx)
	pl := verif.Bytes("payload", 2)
	pre, suf := c07Glued[ctx][0], c07Glued[ctx][1]
	src := append(append([]byte(pre), pl...), suf...)
	k := len(pre) + 1
	mode := 0
	if verif.Tier() == 1 {
		mode = verif.Choice("mode", 3)
	}
	w := c07Whole(src)
	f := c07File(&symio.File{Data: src, Script: c07Script(k, mode), FileName: "file"})
	c07Compare(w, f)
}

// C07_ManyZeroReads: CONCRETE INSTANCES - a reader that returns (0, nil)
// before every short read (or twice, or after every read), 150 to 400 empty
// reads in all over the input: the outcome is that of Parse on the whole text.
func C07_ManyZeroReads() {
	src := "var a = 1\n"
	for i := 0; i < 12; i++ {
		src += "print a + " + itoa(i) + " # c\n"
	}
	src += "def t {\n f = a\n}\n"
	step := []int{1, 2}[verif.Choice("step", 2)]
	zeros := 1 + verif.Choice("zeros", 2)
	var script []symio.Step
	for i := 0; i*step < len(src); i++ {
		for z := 0; z < zeros; z++ {
			script = append(script, symio.Step{N: 0})
		}
		script = append(script, symio.Step{N: step})
	}
	w := c07Whole([]byte(src))
	f := c07File(&symio.File{Data: []byte(src), Script: script, FileName: "file"})
	c07Compare(w, f)
	verif.Reach("compared")
}
