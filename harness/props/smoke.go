package props

import (
	"github.com/wkhere/bcl"

	"verifharness/symio"
	"verifharness/verif"
)

// Smoke_Varint: encode/decode round trip of the sqlite4 varint for all x.
func Smoke_Varint() {
	x := verif.Uint64("x")
	var b [9]byte
	n := bcl.VerifUvarintToBytes(b[:], x)
	y, m := bcl.VerifUvarintFromBytes(b[:n])
	verif.Observe("n", n)
	verif.Observe("b0", b[0])
	verif.Assert(n == m, "length")
	verif.Assert(x == y, "roundtrip")
	verif.Reach("done")
}

// Smoke_Interp: a concrete program through the whole pipeline.
func Smoke_Interp() {
	out, log := &symio.Writer{}, &symio.Writer{}
	res, _, err := bcl.Interpret([]byte("var x = 2\nprint 1+x*3\ndef b \"n\" { f = x; g = \"s\" + 1 }\nprint 1/0"),
		bcl.OptOutput(out), bcl.OptLogger(log))
	verif.Observe("out", out.String())
	verif.Observe("log", log.String())
	verif.Observe("err", err)
	verif.Observe("n", len(res))
	verif.Reach("done")
}

// Smoke_SymInterp: one symbolic byte in an expression.
func Smoke_SymInterp() {
	b := verif.Byte("b")
	src := []byte("print 1 ")
	src = append(src, b)
	src = append(src, " 2"...)
	out, log := &symio.Writer{}, &symio.Writer{}
	_, _, err := bcl.Interpret(src, bcl.OptOutput(out), bcl.OptLogger(log))
	verif.Observe("out", out.String())
	verif.Observe("log", log.String())
	verif.Observe("err", err)
	verif.Reach("done")
}
