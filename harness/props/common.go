package props

import (
	"bytes"
	"fmt"
	"math"
	"strings"

	"github.com/wkhere/bcl"

	"verifharness/refbcl"
	"verifharness/symio"
	"verifharness/verif"
)

// errClass maps an implementation error to the reference notion: what failed
// and on which operand types. Message wording beyond that is not compared.
func errClass(err error) string {
	if err == nil {
		return ""
	}
	msg := err.Error()
	has := func(s string) bool { return strings.Contains(msg, s) }
	after := func(s string) string {
		i := strings.Index(msg, s)
		return msg[i+len(s):]
	}
	switch {
	case has("division by int zero"):
		return "divzero"
	case has("invalid types: "):
		return "types " + after("invalid types: ")
	case has("invalid type: "):
		t := after("invalid type: ")
		if i := strings.Index(t, ","); i >= 0 {
			t = t[:i]
		}
		return "unary " + t
	case has("not resolved as var or field"):
		return "unresolved"
	case has("duplicate at parent"):
		return "dupchild"
	case has("bind: no blocks"):
		return "bind-none"
	case has("but expected just 1"):
		return "bind-many"
	case has("invalid bind target"):
		return "bind-invalid"
	case has("internal error"):
		return "internal"
	case has("combined errors from parse"):
		return "parse"
	}
	return "other: " + msg
}

func refErrClass(e *refbcl.RuntimeError) string {
	if e == nil {
		return ""
	}
	switch e.Kind {
	case "types":
		return "types " + e.Left + ", " + e.Right
	case "unary":
		return "unary " + e.Left
	}
	return e.Kind
}

// printedText renders reference print values the way print shows them.
func printedText(vals []any) string {
	w := &symio.Writer{}
	for _, v := range vals {
		fmt.Fprintln(w, v)
	}
	return w.String()
}

// sameValue compares an implementation value with a reference value: same
// dynamic type and same value (nested blocks recursively).
func sameValue(real any, ref any) bool {
	switch r := ref.(type) {
	case *refbcl.Block:
		b, ok := real.(bcl.Block)
		return ok && sameBlock(b, r)
	case nil:
		return real == nil
	case int:
		x, ok := real.(int)
		return ok && x == r
	case float64:
		x, ok := real.(float64)
		if !ok {
			return false
		}
		return sameFloat(x, r)
	case string:
		x, ok := real.(string)
		return ok && x == r
	case bool:
		x, ok := real.(bool)
		return ok && x == r
	}
	return false
}

// sameFloat: identical bit patterns, or both NaN. Comparing bits first keeps
// the question out of floating-point reasoning when both sides computed the
// value the same way.
func sameFloat(x, r float64) bool {
	if math.Float64bits(x) == math.Float64bits(r) {
		return true
	}
	return x != x && r != r
}

func sameBlock(real bcl.Block, ref *refbcl.Block) bool {
	if real.Type != ref.Type || real.Name != ref.Name {
		return false
	}
	if len(real.Fields) != len(ref.Fields) {
		return false
	}
	for _, k := range ref.Order {
		rv, ok := real.Fields[k]
		if !ok {
			return false
		}
		if !sameValue(rv, ref.Fields[k]) {
			return false
		}
	}
	return true
}

func sameBlocks(real []bcl.Block, ref []*refbcl.Block) bool {
	if len(real) != len(ref) {
		return false
	}
	for i := range ref {
		if !sameBlock(real[i], ref[i]) {
			return false
		}
	}
	return true
}

func sameBinding(real bcl.Binding, res *refbcl.Result) bool {
	switch res.BindKind {
	case "":
		return real == nil
	case "struct":
		b, ok := real.(bcl.StructBinding)
		return ok && len(res.Bound) == 1 && sameBlock(b.Value, res.Bound[0])
	case "slice":
		b, ok := real.(bcl.SliceBinding)
		return ok && sameBlocks(b.Value, res.Bound)
	}
	return false
}

// realRun is what the implementation produced.
type realRun struct {
	Out, Log string
	Blocks   []bcl.Block
	Binding  bcl.Binding
	Err      error
}

func executeReal(p *bcl.Prog, out, log *symio.Writer, opts ...bcl.Option) realRun {
	blocks, binding, err := bcl.Execute(p, opts...)
	return realRun{Out: out.String(), Log: log.String(), Blocks: blocks, Binding: binding, Err: err}
}

// loadAndRun loads a reference-encoded dump with the real loader and runs it.
func loadAndRun(d *refbcl.Dump) (realRun, error) {
	out, log := &symio.Writer{}, &symio.Writer{}
	p, err := bcl.LoadProg(bytes.NewReader(d.Encode()), "x", bcl.OptOutput(out), bcl.OptLogger(log))
	if err != nil {
		return realRun{}, err
	}
	return executeReal(p, out, log), nil
}

// assertSame compares a real run with the reference result.
func assertSame(tag string, rr realRun, ref *refbcl.Result) {
	verif.Assert(!ref.Malformed, tag+": reference machine accepts the program")
	verif.Assert(errClass(rr.Err) == refErrClass(ref.Err), tag+": runtime error class")
	verif.Assert(rr.Out == printedText(ref.Printed), tag+": printed output")
	verif.Assert(sameBlocks(rr.Blocks, ref.Blocks), tag+": blocks")
	if ref.Err == nil {
		verif.Assert(sameBinding(rr.Binding, ref), tag+": binding")
		verif.Assert(strings.Count(rr.Log, "WARNING") == ref.Warnings, tag+": warnings")
	}
}

// asm is a tiny assembler for hand-written bytecode.
type asm struct{ b []byte }

func (a *asm) op(o byte) *asm  { a.b = append(a.b, o); return a }
func (a *asm) uv(x int) *asm   { a.b = refbcl.AppendUvarint(a.b, uint64(x)); return a }
func (a *asm) u16(x int) *asm  { a.b = append(a.b, byte(x>>8), byte(x)); return a }
func (a *asm) raw(x byte) *asm { a.b = append(a.b, x); return a }

func (a *asm) dump(consts ...any) *refbcl.Dump {
	pos := make([]int, len(a.b))
	for i := range pos {
		pos[i] = i + 1
	}
	return &refbcl.Dump{Major: 1, Minor: 1, Name: "asm", Code: a.b, Consts: consts, Positions: pos, Lfs: []int{}}
}

// symValue returns a symbolic value of the k-th kind: int, float, string of
// length n, bool, nil.
func symValue(name string, k int, n int) any {
	switch k {
	case 0:
		return verif.Int(name)
	case 1:
		return verif.Float64(name)
	case 2:
		return verif.String(name, n)
	case 3:
		return verif.Bool(name)
	}
	return nil
}

// ---- source-level differential runner ----

type both struct {
	Src      string
	ParseErr error
	Log      string
	Real     realRun
	Prog     *bcl.Prog

	RefSyn    *refbcl.SyntaxError
	RefStatic []refbcl.StaticError
	RefProg   *refbcl.Program
	Ref       *refbcl.Result
	Toks      []refbcl.Token
}

// placeholderValue is the concrete constant a placeholder literal denotes.
func placeholderValue(text string) any {
	return refbcl.LitValue(literalOf(text))
}

func literalOf(text string) *refbcl.Lit {
	toks := refbcl.Tokens(text)
	return &refbcl.Lit{Kind: toks[0].Kind, Text: text}
}

// runBoth compiles and runs src with the implementation and with the
// reference. values maps placeholder literal spellings to the values that
// replace them on both sides (constant pool patch / reference substitution).
func runBoth(src string, values map[string]any, opts ...bcl.Option) *both {
	b := &both{Src: src}
	out, log := &symio.Writer{}, &symio.Writer{}
	o := append([]bcl.Option{bcl.OptOutput(out), bcl.OptLogger(log)}, opts...)
	p, err := bcl.Parse([]byte(src), "src", o...)
	b.ParseErr = err
	b.Prog = p
	if err == nil {
		if len(values) > 0 {
			var phs, vals []any
			for text, v := range values {
				phs = append(phs, placeholderValue(text))
				vals = append(vals, v)
			}
			patchConsts(p, phs, vals)
		}
		b.Real = executeReal(p, out, log, opts...)
	}
	b.Log = log.String()

	b.Toks = refbcl.Tokens(src)
	b.RefProg, b.RefSyn = refbcl.ParseProgram(b.Toks)
	if b.RefSyn == nil {
		b.RefStatic = refbcl.Check(b.RefProg)
		if len(b.RefStatic) == 0 {
			b.Ref = refbcl.Eval(b.RefProg, values)
		}
	}
	return b
}

// RefAccepts reports whether the reference accepts the source.
func (b *both) RefAccepts() bool { return b.RefSyn == nil && len(b.RefStatic) == 0 }

// assertAgree: same acceptance; when accepted, same results.
func (b *both) assertAgree(tag string) {
	verif.Assert((b.ParseErr == nil) == b.RefAccepts(), tag+": accepted iff the reference accepts")
	if b.ParseErr != nil || !b.RefAccepts() {
		return
	}
	assertSame(tag, b.Real, b.Ref)
}
