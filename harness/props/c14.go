package props

import (
	"bytes"

	"github.com/wkhere/bcl"

	"verifharness/refbcl"
	"verifharness/symio"
	"verifharness/verif"
)

// C14_Uvarint: the sqlite4 varint kernel against the documented encoding, all x.
func C14_Uvarint() {
	x := verif.Uint64("x")
	var b [9]byte
	n := bcl.VerifUvarintToBytes(b[:], x)
	ref := refbcl.AppendUvarint(nil, x)
	verif.Observe("n", n)
	verif.Assert(n == len(ref), "encoded length")
	verif.Assert(bytes.Equal(b[:n], ref), "encoded bytes")
	y, m, ok := refbcl.DecodeUvarint(b[:n])
	verif.Assert(ok && m == n && y == x, "reference decodes real bytes")
	z, k := bcl.VerifUvarintFromBytes(ref)
	verif.Assert(k == len(ref) && z == x, "real decodes reference bytes")
	verif.Reach("done")
}

// C14_Varint: signed integers are stored as the varint of their two's
// complement bit pattern.
func C14_Varint() {
	x := verif.Int64("x")
	var b [9]byte
	n := bcl.VerifVarintToBytes(b[:], x)
	ref := refbcl.AppendUvarint(nil, uint64(x))
	verif.Assert(bytes.Equal(b[:n], ref), "encoded bytes")
	y, m := bcl.VerifVarintFromBytes(ref)
	verif.Assert(m == len(ref) && y == x, "real decodes reference bytes")
	verif.Assert(bcl.VerifI64ToU64(x) == uint64(x), "signed mapping")
	verif.Assert(bcl.VerifU64ToI64(uint64(x)) == x, "unsigned mapping")
	verif.Reach("done")
}

// C14_U16: 16-bit jump operands are big-endian.
func C14_U16() {
	x := verif.Uint16("x")
	var b [2]byte
	bcl.VerifU16ToBytes(b[:], x)
	verif.Assert(b[0] == byte(x>>8) && b[1] == byte(x), "big endian")
	verif.Assert(bcl.VerifU16FromBytes(b[:]) == x, "round trip")
	verif.Reach("done")
}

// C14_Value: typed constants against the documented value encoding.
func C14_Value() {
	k := verif.Choice("kind", 5)
	n := 0
	if k == 2 {
		n = []int{0, 1, 3, 240, 241}[verif.Choice("strlen", 5)]
	}
	v := symValue("v", k, n)
	buf := make([]byte, 16+n)
	m := bcl.VerifValueToBytes(buf, v)
	ref := refbcl.AppendValue(nil, v)
	verif.Observe("n", m)
	verif.Assert(bytes.Equal(buf[:m], ref), "encoded bytes")
	back, used := bcl.VerifValueFromBytes(ref)
	verif.Assert(used == len(ref), "decoded length")
	verif.Assert(sameValue(back, v), "decoded value")
	verif.Reach("done")
}

// C14_Opcodes: every opcode number of format 1.1 in a hand-assembled program
// (reference encoder), loaded and executed by the implementation, against the
// reference machine.
func C14_Opcodes() {
	var d *refbcl.Dump
	a := &asm{}
	c := verif.Choice("case", 16)
	switch c {
	case 0: // NOP CONST PRINT RET, all constant kinds
		k := verif.Choice("kind", 5)
		d = a.op(refbcl.OpNOP).op(refbcl.OpCONST).uv(0).op(refbcl.OpPRINT).op(refbcl.OpRET).dump(symValue("c", k, 2))
	case 1: // NIL ZERO ONE TRUE FALSE
		for _, o := range []byte{refbcl.OpNIL, refbcl.OpZERO, refbcl.OpONE, refbcl.OpTRUE, refbcl.OpFALSE} {
			a.op(o).op(refbcl.OpPRINT)
		}
		d = a.op(refbcl.OpRET).dump()
	case 2: // SETLOCAL GETLOCAL POP
		a.op(refbcl.OpCONST).uv(0)
		a.op(refbcl.OpCONST).uv(1).op(refbcl.OpSETLOCAL).uv(0).op(refbcl.OpPOP)
		a.op(refbcl.OpGETLOCAL).uv(0).op(refbcl.OpPRINT).op(refbcl.OpPOP).op(refbcl.OpRET)
		d = a.dump(smallInt("a"), smallInt("b"))
	case 3: // DEFBLOCK ENDBLOCK SETFIELD GETFIELD, nested, TYPE/NAME
		a.op(refbcl.OpDEFBLOCK).uv(0).uv(1)
		a.op(refbcl.OpCONST).uv(2).op(refbcl.OpSETFIELD).uv(3).op(refbcl.OpPOP)
		a.op(refbcl.OpGETFIELD).uv(3).op(refbcl.OpPRINT)
		a.op(refbcl.OpDEFBLOCK).uv(4).uv(5)
		a.op(refbcl.OpGETFIELD).uv(3).op(refbcl.OpSETFIELD).uv(6).op(refbcl.OpPOP)
		a.op(refbcl.OpGETFIELD).uv(7).op(refbcl.OpPRINT)
		a.op(refbcl.OpGETFIELD).uv(8).op(refbcl.OpPRINT)
		a.op(refbcl.OpENDBLOCK).op(refbcl.OpENDBLOCK).op(refbcl.OpRET)
		d = a.dump("outer", "on", smallInt("v"), "f", "inner", "", "g", "TYPE", "NAME")
	case 4: // NOT on every kind
		k := verif.Choice("kind", 5)
		d = a.op(refbcl.OpCONST).uv(0).op(refbcl.OpNOT).op(refbcl.OpPRINT).op(refbcl.OpRET).dump(symValue("c", k, 1))
	case 5: // binary operators, operand kinds by choice
		ops := []byte{refbcl.OpEQ, refbcl.OpLT, refbcl.OpGT, refbcl.OpADD, refbcl.OpSUB, refbcl.OpMUL, refbcl.OpDIV}
		o := ops[verif.Choice("op", len(ops))]
		ka, kb := verif.Choice("ka", 5), verif.Choice("kb", 5)
		va, vb := symValue("a", ka, 1), symValue("b", kb, 1)
		if ka == 1 || kb == 1 || ((o == refbcl.OpMUL || o == refbcl.OpDIV) && ka == 0 && kb == 0) {
			// floating-point cells (and 64-bit integer multiply/divide) use
			// concrete operands here: values that went
			// through the varint codec are only semantically (not syntactically)
			// equal to the originals, and proving that under fp.div/fp.mul is out
			// of the solver's reach. Symbolic float arithmetic is C01's subject.
			conc := func(k int, i int, f float64) any {
				switch k {
				case 0:
					return i
				case 1:
					return f
				}
				return nil
			}
			if ka <= 1 {
				va = conc(ka, 7, 6.5)
			}
			if kb <= 1 {
				vb = conc(kb, 2, 0.25)
			}
		}
		if ka == 0 {
			n := va.(int)
			verif.Assume(n >= -3 && n <= 240)
		}
		if kb == 0 {
			n := vb.(int)
			verif.Assume(n >= -3 && n <= 240)
		}
		if o == refbcl.OpMUL && ka == 2 && kb == 0 {
			n := vb.(int)
			verif.Assume(n >= 0 && n <= 3)
		}
		d = a.op(refbcl.OpCONST).uv(0).op(refbcl.OpCONST).uv(1).op(o).op(refbcl.OpPRINT).op(refbcl.OpRET).dump(va, vb)
	case 6: // NEG UNPLUS
		o := []byte{refbcl.OpNEG, refbcl.OpUNPLUS}[verif.Choice("op", 2)]
		k := verif.Choice("kind", 5)
		d = a.op(refbcl.OpCONST).uv(0).op(o).op(refbcl.OpPRINT).op(refbcl.OpRET).dump(symValue("c", k, 1))
	case 7: // JUMP forward over a sled, distances incl. one needing both operand bytes
		dist := []int{0, 3, 258}[verif.Choice("dist", 3)]
		a.op(refbcl.OpJUMP).u16(dist)
		for i := 0; i < 260; i++ {
			a.op(refbcl.OpNOP)
		}
		d = a.op(refbcl.OpCONST).uv(0).op(refbcl.OpPRINT).op(refbcl.OpRET).dump(smallInt("c"))
	case 8: // LOOP backward
		// 0: JUMP +5 -> 8 ; 3: CONST 0; 5: PRINT; 6: RET; 7: NOP; 8: LOOP 8 -> 3
		a.op(refbcl.OpJUMP).u16(5)
		a.op(refbcl.OpCONST).uv(0).op(refbcl.OpPRINT).op(refbcl.OpRET).op(refbcl.OpNOP)
		a.op(refbcl.OpLOOP).u16(8)
		d = a.dump(smallInt("c"))
	case 9: // JFALSE on every kind (both outcomes)
		k := verif.Choice("kind", 5)
		a.op(refbcl.OpCONST).uv(0).op(refbcl.OpJFALSE).u16(3)
		a.op(refbcl.OpPOP).op(refbcl.OpCONST).uv(1)
		a.op(refbcl.OpPRINT).op(refbcl.OpRET)
		d = a.dump(symValue("c", k, 1), smallInt("d"))
	case 10: // POPN
		a.op(refbcl.OpCONST).uv(0).op(refbcl.OpCONST).uv(1).op(refbcl.OpCONST).uv(0)
		a.op(refbcl.OpGETLOCAL).uv(1).op(refbcl.OpPRINT)
		a.op(refbcl.OpPOPN).uv(3).op(refbcl.OpRET)
		d = a.dump(smallInt("a"), smallInt("b"))
	case 11, 12, 13: // BIND: 1..3 blocks of the bound type, a foreign one, every option byte
		nb := c - 10
		for i := 0; i < nb; i++ {
			a.op(refbcl.OpDEFBLOCK).uv(0).uv(1)
			a.op(refbcl.OpCONST).uv(3 + i).op(refbcl.OpSETFIELD).uv(2).op(refbcl.OpPOP).op(refbcl.OpENDBLOCK)
		}
		a.op(refbcl.OpDEFBLOCK).uv(6).uv(1).op(refbcl.OpENDBLOCK)
		opt := verif.Byte("bindopt")
		a.op(refbcl.OpBIND).uv(0).raw(opt).op(refbcl.OpRET)
		d = a.dump("t", "", "f", smallInt("v0"), smallInt("v1"), smallInt("v2"), "other")
		// the option byte is part of the code: concretise it class by class
		valid := opt == 0x11 || opt == 0x12 || opt == 0x13 || opt == 0x21 || opt == 0x22 || opt == 0x23 || opt == 0x2F
		if valid {
			verif.Reach("bind-valid")
		} else {
			verif.Reach("bind-invalid")
		}
	case 14: // two BINDs: warning, last wins; bind of a missing type
		a.op(refbcl.OpDEFBLOCK).uv(0).uv(1).op(refbcl.OpENDBLOCK)
		a.op(refbcl.OpBIND).uv(0).raw(0x11)
		a.op(refbcl.OpBIND).uv(0).raw(0x2F)
		if verif.Choice("missing", 2) == 1 {
			a.op(refbcl.OpBIND).uv(2).raw(0x11)
		}
		d = a.op(refbcl.OpRET).dump("t", "nm", "absent")
	case 15: // duplicate child key, unresolved field
		if verif.Choice("which", 2) == 0 {
			a.op(refbcl.OpDEFBLOCK).uv(0).uv(1)
			a.op(refbcl.OpDEFBLOCK).uv(2).uv(1).op(refbcl.OpENDBLOCK)
			a.op(refbcl.OpDEFBLOCK).uv(2).uv(1).op(refbcl.OpENDBLOCK)
			a.op(refbcl.OpENDBLOCK).op(refbcl.OpRET)
		} else {
			a.op(refbcl.OpDEFBLOCK).uv(0).uv(1)
			a.op(refbcl.OpGETFIELD).uv(2).op(refbcl.OpPRINT)
			a.op(refbcl.OpENDBLOCK).op(refbcl.OpRET)
		}
		d = a.dump("t", "", "c")
	}
	rr, err := loadAndRun(d)
	verif.Assert(err == nil, "hand-assembled dump loads")
	if err != nil {
		return
	}
	ref := refbcl.Run(d, 1000)
	verif.Observe("out", rr.Out)
	verif.Observe("err", errClass(rr.Err))
	assertSame("opcode", rr, ref)
	verif.Reach("compared")
}

// smallInt is a symbolic int in one varint size class (0..240), so that a
// constant costs one path instead of nine in the encoder and the loader.
func smallInt(name string) int {
	v := verif.Int(name)
	verif.Assume(v >= 0 && v <= 240)
	return v
}

// C14_DumpLayout: a fresh Dump follows the documented layout: the reference
// decoder recovers exactly the program's parts and re-encodes them to the same
// bytes; constants of every kind with symbolic values (ints in two size
// classes, floats, strings).
func C14_DumpLayout() {
	progs := []string{
		"print 1001\nprint 1001.5\nprint \"s1\"\nprint true and nil\n",
		"var x = 1001\ndef t \"n\" {\n f = x + 1\n def u {\n g = \"s1\"\n}\n}\nbind t:first -> slice\n",
		"print 0 or 1 and (2 == 1001)\n# comment\n\nprint -1001.5\n",
	}
	src := progs[verif.Choice("prog", len(progs))]
	out, log := &symio.Writer{}, &symio.Writer{}
	p, err := bcl.Parse([]byte(src), "name", bcl.OptOutput(out), bcl.OptLogger(log))
	if err != nil {
		panic("rejected")
	}
	var phs, vals []any
	if containsStr(src, "1001.5") {
		phs, vals = append(phs, 1001.5), append(vals, verif.Float64("f"))
	}
	iv := verif.Int("i")
	verif.Assume(iv >= -3 && iv <= 3000)
	for _, c := range bcl.VerifConsts(p) {
		if c == 1001 {
			phs, vals = append(phs, 1001), append(vals, iv)
			break
		}
	}
	if containsStr(src, "\"s1\"") {
		phs, vals = append(phs, "s1"), append(vals, verif.String("s", 2))
	}
	patchConsts(p, phs, vals)
	var b bytes.Buffer
	if p.Dump(&b) != nil {
		panic("dump failed")
	}
	d, ok := refbcl.Decode(b.Bytes())
	verif.Assert(ok, "the reference decoder accepts the dump")
	if !ok {
		return
	}
	verif.Assert(d.Major == 1 && d.Minor == 1, "version 1.1")
	verif.Assert(d.Name == "name", "name section")
	verif.Assert(bytes.Equal(d.Code, bcl.VerifCode(p)), "code section")
	consts := bcl.VerifConsts(p)
	same := len(d.Consts) == len(consts)
	if same {
		for i := range consts {
			same = same && sameValue(d.Consts[i], consts[i])
		}
	}
	verif.Assert(same, "constants section")
	pos, lfs := bcl.VerifPositions(p), bcl.VerifLfs(p)
	same = len(d.Positions) == len(pos) && len(d.Lfs) == len(lfs)
	if same {
		for i := range pos {
			same = same && d.Positions[i] == pos[i]
		}
		for i := range lfs {
			same = same && d.Lfs[i] == lfs[i]
		}
	}
	verif.Assert(same, "positions and line table sections")
	verif.Assert(bytes.Equal(d.Encode(), b.Bytes()), "re-encoding gives the same bytes")
	verif.Reach("decoded")
}

// c14Sizes: operand values at the edges of the varint size classes (1 byte up
// to 240, 2 bytes up to 2287, 3 bytes from 2288) and at multiples of 256.
var c14Sizes = []int{3, 15, 16, 239, 240, 241, 255, 256, 257, 299, 495, 496, 511, 512, 767, 1000, 2286, 2287, 2288, 2289}

// C14_Wide: hand-assembled 1.1 files whose operands (constant index, local
// slot, POPN count, field-name index, block type/name index, BIND type index)
// need one, two and three varint bytes, and files with string constants and
// names up to several 4096-byte buffers, loaded and executed by the
// implementation against the reference machine.
func C14_Wide() {
	a := &asm{}
	var d *refbcl.Dump
	ints := func(n int) []any {
		cs := make([]any, n)
		for i := range cs {
			cs[i] = 1000 + i
		}
		return cs
	}
	switch verif.Choice("case", 6) {
	case 0: // CONST idx
		idx := c14Sizes[verif.Choice("idx", len(c14Sizes))]
		cs := ints(idx + 2)
		cs[idx] = smallInt("c")
		a.op(refbcl.OpCONST).uv(idx).op(refbcl.OpPRINT).op(refbcl.OpCONST).uv(idx + 1).op(refbcl.OpPRINT).op(refbcl.OpRET)
		d = a.dump(cs...)
	case 1: // SETLOCAL / GETLOCAL slot, POPN slot+1
		sizes := []int{3, 239, 240, 241, 255, 256, 257, 299, 495, 496, 511, 512, 767, 1000}
		slot := sizes[verif.Choice("slot", len(sizes))]
		for i := 0; i <= slot; i++ {
			a.op(refbcl.OpCONST).uv(0)
		}
		a.op(refbcl.OpCONST).uv(1).op(refbcl.OpSETLOCAL).uv(slot).op(refbcl.OpPOP)
		a.op(refbcl.OpGETLOCAL).uv(slot).op(refbcl.OpPRINT)
		a.op(refbcl.OpGETLOCAL).uv(slot - 1).op(refbcl.OpPRINT)
		a.op(refbcl.OpPOPN).uv(slot + 1).op(refbcl.OpRET)
		d = a.dump(smallInt("a"), smallInt("b"))
	case 2: // SETFIELD / GETFIELD name index
		idx := c14Sizes[verif.Choice("idx", len(c14Sizes))]
		cs := ints(idx + 2)
		cs[0], cs[1], cs[2] = "t", "n", smallInt("v")
		cs[idx], cs[idx+1] = "f", "g"
		a.op(refbcl.OpDEFBLOCK).uv(0).uv(1)
		a.op(refbcl.OpCONST).uv(2).op(refbcl.OpSETFIELD).uv(idx).op(refbcl.OpPOP)
		a.op(refbcl.OpGETFIELD).uv(idx).op(refbcl.OpSETFIELD).uv(idx + 1).op(refbcl.OpPOP)
		a.op(refbcl.OpGETFIELD).uv(idx + 1).op(refbcl.OpPRINT)
		a.op(refbcl.OpENDBLOCK).op(refbcl.OpRET)
		d = a.dump(cs...)
	case 3: // DEFBLOCK type / name index, BIND type index
		idx := c14Sizes[verif.Choice("idx", len(c14Sizes))]
		cs := ints(idx + 3)
		cs[0], cs[1] = "other", ""
		cs[idx], cs[idx+1], cs[idx+2] = "t", "nm", "f"
		a.op(refbcl.OpDEFBLOCK).uv(0).uv(1).op(refbcl.OpENDBLOCK)
		a.op(refbcl.OpDEFBLOCK).uv(idx).uv(idx + 1)
		a.op(refbcl.OpCONST).uv(2).op(refbcl.OpSETFIELD).uv(idx + 2).op(refbcl.OpPOP)
		a.op(refbcl.OpENDBLOCK)
		a.op(refbcl.OpBIND).uv(idx).raw(0x11).op(refbcl.OpRET)
		d = a.dump(cs...)
	case 4, 5: // long string constant / long program name, followed by more data
		lens := []int{0, 1, 95, 96, 240, 241, 2287, 2288, 4095, 4096, 4097, 5000, 8191, 8192, 8193, 12289}
		n := lens[verif.Choice("len", len(lens))]
		s := ""
		if n > 0 {
			b := make([]byte, n-1)
			for i := range b {
				b[i] = byte('a' + i%26)
			}
			s = string(b) + verif.String("tail", 1)
		}
		a.op(refbcl.OpCONST).uv(0).op(refbcl.OpPRINT).op(refbcl.OpCONST).uv(1).op(refbcl.OpPRINT).op(refbcl.OpRET)
		if verif.Choice("where", 2) == 0 {
			d = a.dump(s, smallInt("after"))
		} else {
			d = a.dump("short", smallInt("after"))
			d.Name = s
		}
	}
	if verif.Choice("minor", 2) == 0 {
		d.Minor = 0 // the loader accepts minor versions up to the current one
	}
	rr, err := loadAndRun(d)
	verif.Assert(err == nil, "hand-assembled dump loads")
	if err != nil {
		return
	}
	ref := refbcl.Run(d, 10000)
	verif.Observe("out", rr.Out)
	verif.Observe("err", errClass(rr.Err))
	assertSame("wide", rr, ref)
	verif.Reach("compared")
}
