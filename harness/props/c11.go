package props

import (
	"errors"
	"io"

	"github.com/wkhere/bcl"

	"verifharness/symio"
	"verifharness/verif"
)

var errC11 = errors.New("scripted read error")

type c11Input struct {
	src  string
	fail int // offset of a lexical failure, or -1
}

var c11Inputs = []c11Input{
	{"var x = 1\nprint x + 2\n", -1},            // valid
	{"print )\nvar x = 1\nprint x\n", -1},       // early syntax error
	{"var x = 1\nprint x\nprint (\n", -1},       // late syntax error
	{"print $\nvar x = 1\nprint x + 2\n", 6},    // early lexical failure
	{"var x = 1\nprint x + 2\nprint $\n", 28},   // late lexical failure
	{"def t {\n ratio = 1.\n}\nprint 1\n", 18},  // lexical failure inside an open block
	{"def t {\n def u {\n x = \"a\n}\n}\n", 25}, // unterminated string two blocks deep
	{"print )\nprint )\nprint )\nprint )\nprint )\nprint )\nprint )\nprint )\nprint )\nprint )\nprint )\nprint )\nvar a = 1\nvar b = 2\nprint a + b * 3 - 4 / 5\nprint a\n", -1}, // many syntax errors, then many tokens
}

// C11_Script: every reader script of k reads (sizes 0 / 1 / 7 / rest, each
// with nil, EOF or an error) against five input classes, under schedule
// exploration of the ParseFile goroutines: the call returns, Close is called
// exactly once, nothing is left running, a delivered read error is returned,
// and reading stops soon after a lexical failure.
func C11_Script() {
	in := c11Inputs[verif.Choice("input", 7)]
	k := verif.Choice("reads", 3)
	var script []symio.Step
	for i := 0; i < k; i++ {
		sizes := []int{0, 1, 1000}
		if verif.Tier() == 1 {
			sizes = []int{0, 1, 7, 1000}
		}
		n := sizes[verif.Choice("n", len(sizes))]
		var err error
		switch verif.Choice("err", 3) {
		case 1:
			err = io.EOF
		case 2:
			err = errC11
		}
		script = append(script, symio.Step{N: n, Err: err})
	}
	f := &symio.File{Data: []byte(in.src), Script: script, FileName: "f"}
	out, log := &symio.Writer{}, &symio.Writer{}
	_, err := bcl.ParseFile(f, bcl.OptOutput(out), bcl.OptLogger(log))
	left := verif.Quiesce()
	verif.Reach("returned")
	verif.Observe("closes", f.Closes)
	verif.Observe("err", err)
	verif.Assert(f.Closes == 1, "Close called exactly once")
	verif.Assert(left == 0, "no goroutine of the call is left running or blocked")
	if f.ErrDelivered() {
		verif.Reach("read-error")
		verif.Assert(err == errC11, "a read error is returned in preference to parse errors")
	}
	if in.fail >= 0 && f.Pos() > in.fail && !f.ErrDelivered() {
		verif.Reach("lexical-failure")
		verif.Assert(err != nil, "lexical failure reported")
	}
}

// C11_StopsReading: a lexical failure long before the end of a large input:
// only a few reads happen after the chunk holding the failure.
func C11_StopsReading() {
	chunk := []int{1, 4, 16}[verif.Choice("chunk", 3)]
	src := "print $\n"
	for i := 0; i < 40; i++ {
		src += "print 1\n"
	}
	var script []symio.Step
	for i := 0; i*chunk < len(src); i++ {
		script = append(script, symio.Step{N: chunk})
	}
	f := &symio.File{Data: []byte(src), Script: script, FileName: "f"}
	out, log := &symio.Writer{}, &symio.Writer{}
	_, err := bcl.ParseFile(f, bcl.OptOutput(out), bcl.OptLogger(log))
	left := verif.Quiesce()
	verif.Observe("closes", f.Closes)
	verif.Assert(err != nil, "lexical failure reported")
	verif.Assert(f.Closes == 1, "Close called exactly once")
	verif.Assert(left == 0, "no goroutine left")
	failChunk := 6/chunk + 1
	verif.Assert(f.Reads <= failChunk+3, "reading stops within a few reads after the failure")
	verif.Reach("returned")
}

// C11_Variants: InterpretFile and UnmarshalFile close exactly once too.
func C11_Variants() {
	in := c11Inputs[verif.Choice("input", 7)]
	n := []int{0, 1, 7, 1000}[verif.Choice("n", 4)]
	var e error
	switch verif.Choice("err", 3) {
	case 1:
		e = io.EOF
	case 2:
		e = errC11
	}
	f := &symio.File{Data: []byte(in.src), Script: []symio.Step{{N: n, Err: e}}, FileName: "f"}
	out, log := &symio.Writer{}, &symio.Writer{}
	_, _, err := bcl.InterpretFile(f, bcl.OptOutput(out), bcl.OptLogger(log))
	left := verif.Quiesce()
	verif.Observe("closes", f.Closes)
	verif.Observe("err", err)
	verif.Assert(f.Closes == 1, "Close called exactly once")
	verif.Assert(left == 0, "no goroutine left")
	if f.ErrDelivered() {
		verif.Assert(err == errC11, "read error returned")
	}
	verif.Reach("returned")
}

// C11_ManyErrors: many syntax errors followed by many more tokens (the parser
// must keep draining the lexer), read in chunks of 16 / 64 / all.
func C11_ManyErrors() {
	in := c11Inputs[7]
	chunk := []int{16, 64, 1000}[verif.Choice("chunk", 3)]
	var script []symio.Step
	for i := 0; i*chunk < len(in.src); i++ {
		script = append(script, symio.Step{N: chunk})
	}
	f := &symio.File{Data: []byte(in.src), Script: script, FileName: "f"}
	out, log := &symio.Writer{}, &symio.Writer{}
	_, err := bcl.ParseFile(f, bcl.OptOutput(out), bcl.OptLogger(log))
	left := verif.Quiesce()
	verif.Observe("closes", f.Closes)
	verif.Assert(err != nil, "syntax errors reported")
	verif.Assert(f.Closes == 1, "Close called exactly once")
	verif.Assert(left == 0, "no goroutine of the call is left running or blocked")
	verif.Reach("returned")
}

// C11_DataWithEOF: the reader delivers its last bytes together with io.EOF
// (as os.File never does but the io.Reader contract allows), after a first
// read that ends before, inside or after a lexical failure; every input
// class, under schedule exploration.
func C11_DataWithEOF() {
	var in c11Input
	var first int
	if verif.Tier() == 1 {
		in = c11Inputs[verif.Choice("input", len(c11Inputs))]
		first = []int{1, 7, 12, 20}[verif.Choice("first", 4)]
	} else {
		in = c11Inputs[[]int{0, 3, 5, 6}[verif.Choice("input", 4)]]
		first = []int{7, 20}[verif.Choice("first", 2)]
	}
	script := []symio.Step{{N: first}, {N: 1000, Err: io.EOF}}
	if verif.Tier() == 1 && verif.Choice("three", 2) == 1 {
		script = []symio.Step{{N: first}, {N: 9}, {N: 1000, Err: io.EOF}}
	}
	f := &symio.File{Data: []byte(in.src), Script: script, FileName: "f"}
	out, log := &symio.Writer{}, &symio.Writer{}
	_, err := bcl.ParseFile(f, bcl.OptOutput(out), bcl.OptLogger(log))
	left := verif.Quiesce()
	verif.Reach("returned")
	verif.Observe("closes", f.Closes)
	verif.Observe("err", err)
	verif.Assert(f.Closes == 1, "Close called exactly once")
	verif.Assert(left == 0, "no goroutine of the call is left running or blocked")
	if in.fail >= 0 {
		verif.Assert(err != nil, "lexical failure reported")
	}
}
