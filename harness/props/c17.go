package props

import (
	"strings"

	"github.com/wkhere/bcl"

	"verifharness/refbcl"
	"verifharness/symio"
	"verifharness/verif"
)

const c17Alphabet = "={}()<>+-*/:;1a "

func c17InAlphabet(b byte) bool {
	ok := false
	for i := 0; i < len(c17Alphabet); i++ {
		ok = ok || b == c17Alphabet[i]
	}
	return ok
}

var c17Contexts = [][2]string{
	{"", ""},
	{"def b {", "}"},
	{"var a = 1\nprint ", ""},
	{"var a = 1\neval ", ""},
}

func c17DiagLines(log string) []string {
	var out []string
	for _, l := range strings.Split(log, "\n") {
		if strings.HasPrefix(l, "line ") && strings.Contains(l, ": error") {
			out = append(out, l)
		}
	}
	return out
}

// c17Check runs Interpret and the reference recogniser on src and asserts the
// acceptance and reporting obligations.
func c17Check(src string) bool {
	out, log := &symio.Writer{}, &symio.Writer{}
	blocks, binding, err := bcl.Interpret([]byte(src), bcl.OptOutput(out), bcl.OptLogger(log))
	toks := refbcl.Tokens(src)
	prog, syn := refbcl.ParseProgram(toks)
	accepts := syn == nil
	if accepts {
		accepts = len(refbcl.Check(prog)) == 0
	}
	rejected := err != nil && errClass(err) == "parse"
	verif.Observe("rejected", rejected)
	verif.Assert(rejected == !accepts, "accepted iff derivable from the grammar")
	if rejected {
		verif.Reach("rejected")
		verif.Assert(blocks == nil && binding == nil, "a rejection returns no results")
		verif.Assert(len(c17DiagLines(log.String())) >= 1, "a rejection writes a diagnostic line")
	} else {
		verif.Reach("accepted")
		verif.Assert(len(c17DiagLines(log.String())) == 0, "an acceptance writes no diagnostic")
	}
	return rejected
}

// C17_Bytes: K symbolic bytes over the single-byte token alphabet
// (= { } ( ) < > + - * / : ; digit letter space) in four contexts.
func C17_Bytes() {
	nctx := 2 + 2*verif.Tier()
	ctx := verif.Choice("context", nctx)
	k := 3 + verif.Tier()
	p := verif.Bytes("tokens", k)
	for _, b := range p {
		verif.Assume(c17InAlphabet(b))
	}
	src := c17Contexts[ctx][0] + string(p) + c17Contexts[ctx][1]
	c17Check(src)
}

var c17Vocabulary = []string{
	"var", "def", "eval", "print", "bind", "true", "false", "nil", "not", "and", "or",
	"==", "!=", "<=", ">=", "->", "x", "t", "1", "2.5", "\"s\"", "=", "{", "}", "(", ")", "+", "-", "*", ":", ";", "first", "struct", "slice", "all",
}

// C17_Slots: sequences of multi-byte tokens chosen slot by slot from the
// vocabulary (enumerated by Choice; concrete per path).
func C17_Slots() {
	n := 2 + verif.Tier()
	src := ""
	ctx := verif.Choice("context", 2)
	for i := 0; i < n; i++ {
		src += c17Vocabulary[verif.Choice("slot", len(c17Vocabulary))] + " "
	}
	src = c17Contexts[ctx][0] + " " + src + c17Contexts[ctx][1]
	c17Check(src)
}

var c17Sentences = []string{
	"var x = 1 + 2 ; print x",
	"def t \"n\" { f = 1 ; var v = f ; def u { g = v } }",
	"var y = 1 bind t : first -> slice",
	"var z = 1 eval z = ( z = 2 ) * - 3",
	"print not true and nil or false",
	"def t { x = 1 == 2 } bind t -> struct",
	"print 1 #c\rprint 2 #d\nprint 3",
	"def b { #open\rprint TYPE #t\r}",
}

// C17_Damage: every sentence with one token replaced by a single-byte token
// (symbolic), deleted, duplicated or swapped with its neighbour.
func C17_Damage() {
	s := c17Sentences[verif.Choice("sentence", len(c17Sentences))]
	toks := strings.Split(s, " ")
	i := verif.Choice("pos", len(toks))
	var out []string
	switch verif.Choice("damage", 4) {
	case 0:
		b := verif.Byte("replacement")
		verif.Assume(c17InAlphabet(b) && b != ' ')
		out = append(append(append(out, toks[:i]...), string([]byte{b})), toks[i+1:]...)
	case 1:
		out = append(append(out, toks[:i]...), toks[i+1:]...)
	case 2:
		out = append(append(append(out, toks[:i+1]...), toks[i]), toks[i+1:]...)
	default:
		if i+1 >= len(toks) {
			verif.Assume(false)
		}
		out = append(out, toks...)
		out[i], out[i+1] = out[i+1], out[i]
	}
	c17Check(strings.Join(out, " "))
}

// C17_Recovery: a syntax error in a toplevel var, eval or print statement
// does not hide an error in a later toplevel statement starting with var,
// def, eval or print.
func C17_Recovery() {
	first := []string{"var = 1", "var x = ", "var x = 1 +", "eval 1 +", "print ( 1", "print", "var 1", "print 1 2", "eval x = = 2", "print )"}
	second := []string{"var = 2", "print ( 2", "eval 2 *", "def { }", "def t f = 1 }", "print"}
	a := first[verif.Choice("first", len(first))]
	b := second[verif.Choice("second", len(second))]
	// any one or two further tokens (symbolic bytes of the token alphabet, so
	// also stray braces and parentheses) behind the first faulty statement
	if n := verif.Choice("extra", 2+verif.Tier()); n > 0 {
		x := verif.Bytes("x", n)
		for _, c := range x {
			// punctuation only: a letter or digit glued to what precedes it can
			// be a lexical failure, which ends the parse at once
			verif.Assume(c17InAlphabet(c) && c != '1' && c != 'a' && c != ' ')
		}
		a += " " + string(x)
		if _, syn := refbcl.ParseProgram(refbcl.Tokens(a)); syn == nil {
			return // the extra tokens completed the statement
		}
	}
	src := a + "\n" + b + "\n"
	out, log := &symio.Writer{}, &symio.Writer{}
	_, _, err := bcl.Interpret([]byte(src), bcl.OptOutput(out), bcl.OptLogger(log))
	verif.Assert(err != nil, "rejected")
	d := c17DiagLines(log.String())
	verif.Observe("diags", len(d))
	verif.Assert(len(d) >= 2, "at least two diagnostics")
	second2 := false
	for _, l := range d {
		if strings.HasPrefix(l, "line 2:") || strings.HasPrefix(l, "line 3:") {
			second2 = true
		}
	}
	verif.Assert(second2, "the later statement gets a diagnostic of its own")
	verif.Reach("checked")
}

// C17_AssignPlaces: assignment is only allowed to a bare identifier at the
// start of an expression, of a parenthesis or of another assignment's right
// side: every operator and prefix in front of `b = 1`, with and without
// parentheses.
func C17_AssignPlaces() {
	ops := []string{"or", "and", "==", "!=", "<", "<=", ">", ">=", "+", "-", "*", "/"}
	pre := []string{"", "not ", "- ", "+ "}
	form := verif.Choice("form", 6)
	op := ops[verif.Choice("op", len(ops))]
	px := pre[verif.Choice("prefix", len(pre))]
	var e string
	switch form {
	case 0:
		e = px + "a " + op + " b = 1"
	case 1:
		e = px + "a " + op + " ( b = 1 )"
	case 2:
		e = "a = " + px + "a " + op + " b"
	case 3:
		e = px + "b = 1"
	case 4:
		e = "( a ) = 1"
	default:
		e = "a = b = " + px + "a " + op + " 1"
	}
	ctx := verif.Choice("context", 2)
	src := "var a = 1\nvar b = 2\n" + []string{"print ", "eval "}[ctx] + e + "\n"
	if c17Check(src) {
		verif.Reach("rejected")
	}
}

// C17_Streamed: the same acceptance and reporting obligations through
// InterpretFile: every sentence (comments with CR and LF ends included), one
// symbolic byte from the token alphabet appended to it, read in two pieces cut
// at every position (and one byte at a time).
func C17_Streamed() {
	set := []int{0, 5, 6, 7}
	if verif.Tier() == 1 {
		set = []int{0, 1, 2, 3, 4, 5, 6, 7}
	}
	s := c17Sentences[set[verif.Choice("sentence", len(set))]]
	b := verif.Byte("extra")
	verif.Assume(c17InAlphabet(b) || b == '#' || b == '\n')
	src := s + " #tail\r" + string([]byte{b}) + " #more\nprint 9 #end"
	var script []symio.Step
	if cut := verif.Choice("cut", len(src)+1); cut < len(src) {
		script = []symio.Step{{N: cut + 1}}
	} else {
		for i := 0; i < len(src); i++ {
			script = append(script, symio.Step{N: 1})
		}
	}
	out, log := &symio.Writer{}, &symio.Writer{}
	f := &symio.File{Data: []byte(src), Script: script, FileName: "file"}
	blocks, binding, err := bcl.InterpretFile(f, bcl.OptOutput(out), bcl.OptLogger(log))
	toks := refbcl.Tokens(src)
	prog, syn := refbcl.ParseProgram(toks)
	accepts := syn == nil
	if accepts {
		accepts = len(refbcl.Check(prog)) == 0
	}
	rejected := err != nil && errClass(err) == "parse"
	verif.Observe("rejected", rejected)
	verif.Assert(rejected == !accepts, "streamed: accepted iff derivable from the grammar")
	if rejected {
		verif.Reach("rejected")
		verif.Assert(blocks == nil && binding == nil, "streamed: a rejection returns no results")
		verif.Assert(len(c17DiagLines(log.String())) >= 1, "streamed: a rejection writes a diagnostic line")
	} else {
		verif.Reach("accepted")
		verif.Assert(len(c17DiagLines(log.String())) == 0, "streamed: an acceptance writes no diagnostic")
	}
}
