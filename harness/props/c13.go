package props

import (
	"bytes"

	"github.com/wkhere/bcl"

	"verifharness/refbcl"
	"verifharness/symio"
	"verifharness/verif"
)

// c13Template builds a dump whose contents are symbolic and whose structure
// (lengths, counts, type codes) is concrete per path.
func c13Template() []byte {
	code := []byte{
		refbcl.OpCONST, 0, refbcl.OpPRINT,
		refbcl.OpCONST, 1, refbcl.OpPRINT,
		refbcl.OpCONST, 2, refbcl.OpPRINT,
		refbcl.OpCONST, 3, refbcl.OpPRINT,
		refbcl.OpCONST, 4, refbcl.OpPRINT,
		refbcl.OpRET,
	}
	d := &refbcl.Dump{Major: 1, Minor: 1}
	d.Name = verif.String("name", 2)
	d.Code = code
	iv := verif.Int("int")
	if verif.Tier() == 0 {
		// quick: three of the nine varint size classes of the int constant
		verif.Assume(uint64(iv) < 70000)
	}
	d.Consts = []any{iv, verif.Float64("float"), verif.String("str", 3), verif.Bool("bool"), nil}
	p0 := verif.Int("pos0")
	verif.Assume(p0 >= 0 && p0 < 3000)
	d.Positions = make([]int, len(code))
	d.Positions[0] = p0
	for i := 1; i < len(code); i++ {
		d.Positions[i] = 7 + i
	}
	l0 := verif.Int("lf0")
	verif.Assume(l0 >= 0 && l0 < 300)
	d.Lfs = []int{l0, 2500}
	return d.Encode()
}

// C13_Truncate: every proper prefix of a valid dump (symbolic contents) is
// rejected with an error, without a panic; the whole dump loads.
func C13_Truncate() {
	full := c13Template()
	cut := verif.Choice("cut", len(full)+1)
	out, log := &symio.Writer{}, &symio.Writer{}
	_, err := bcl.LoadProg(bytes.NewReader(full[:cut]), "x", bcl.OptOutput(out), bcl.OptLogger(log), bcl.OptDisasm(verif.Bool("disasm")))
	verif.Observe("cut", cut)
	verif.Observe("len", len(full))
	verif.Observe("err", err != nil)
	if cut < len(full) {
		verif.Reach("proper-prefix")
		verif.Assert(err != nil, "truncated-dump-rejected")
	} else {
		verif.Reach("whole")
		verif.Assert(err == nil, "whole-dump-accepted")
	}
}

// C13_TruncateBig: the same with every number of the dump in its longest
// encoding: an int constant of nine bytes (>= 2^56 or negative), position and
// line-feed entries of four and more bytes.
func C13_TruncateBig() {
	code := []byte{refbcl.OpCONST, 0, refbcl.OpPRINT, refbcl.OpRET}
	d := &refbcl.Dump{Major: 1, Minor: 1, Name: "n", Code: code}
	iv := verif.Int("int")
	verif.Assume(uint64(iv) >= 1<<56)
	d.Consts = []any{iv}
	p0 := verif.Int("pos0")
	verif.Assume(p0 >= 1<<24 && p0 < 1<<32)
	d.Positions = []int{p0, 1 << 33, 1 << 41, 1 << 49}
	l0 := verif.Int("lf0")
	verif.Assume(l0 >= 1<<57)
	d.Lfs = []int{67824, l0}
	full := d.Encode()
	cut := verif.Choice("cut", len(full)+1)
	out, log := &symio.Writer{}, &symio.Writer{}
	_, err := bcl.LoadProg(bytes.NewReader(full[:cut]), "x", bcl.OptOutput(out), bcl.OptLogger(log), bcl.OptDisasm(verif.Bool("disasm")))
	verif.Observe("cut", cut)
	verif.Observe("err", err != nil)
	if cut < len(full) {
		verif.Reach("proper-prefix")
		verif.Assert(err != nil, "truncated-dump-rejected")
	} else {
		verif.Reach("whole")
		verif.Assert(err == nil, "whole-dump-accepted")
	}
}

// C13_Header: all 2^16 magic values and all version byte pairs.
func C13_Header() {
	full := c13ConcreteDump()
	m0, m1 := verif.Byte("magic0"), verif.Byte("magic1")
	major, minor := verif.Byte("major"), verif.Byte("minor")
	b := append([]byte{m0, m1, major, minor}, full[4:]...)
	out, log := &symio.Writer{}, &symio.Writer{}
	_, err := bcl.LoadProg(bytes.NewReader(b), "x", bcl.OptOutput(out), bcl.OptLogger(log))
	valid := m0 == 0xFC && m1 == 0x6C && major == 1 && minor <= 1
	verif.Observe("err", err != nil)
	if valid {
		verif.Reach("valid-header")
		verif.Assert(err == nil, "valid-header-accepted")
	} else {
		verif.Reach("invalid-header")
		verif.Assert(err != nil, "bad-magic-or-version-rejected")
	}
}

var c13Programs = []string{
	"print 1",
	"var x = \"some string\"\nprint x + 1.5\ndef b \"name\" { f = x; g = true and nil }\nbind b -> struct",
	"def a { x = 100000 }\ndef a { x = 0xffffffffff; y = 2.25e10 }\nbind a:all -> slice\n",
}

func c13ConcreteDump() []byte {
	out, log := &symio.Writer{}, &symio.Writer{}
	p, err := bcl.Parse([]byte(c13Programs[1]), "prog", bcl.OptOutput(out), bcl.OptLogger(log))
	if err != nil {
		panic("c13: template program rejected")
	}
	var buf bytes.Buffer
	if err := p.Dump(&buf); err != nil {
		panic("c13: dump failed")
	}
	return buf.Bytes()
}

// C13_RealDumps: dumps written by the real Dump for concrete programs, every
// cut point (concrete instances enumerated by Choice).
func C13_RealDumps() {
	k := verif.Choice("program", len(c13Programs))
	out, log := &symio.Writer{}, &symio.Writer{}
	p, err := bcl.Parse([]byte(c13Programs[k]), "prog", bcl.OptOutput(out), bcl.OptLogger(log))
	if err != nil {
		panic("c13: template program rejected")
	}
	var buf bytes.Buffer
	if err := p.Dump(&buf); err != nil {
		panic("c13: dump failed")
	}
	full := buf.Bytes()
	cut := verif.Choice("cut", len(full))
	_, err = bcl.LoadProg(bytes.NewReader(full[:cut]), "x", bcl.OptOutput(out), bcl.OptLogger(log))
	verif.Observe("err", err != nil)
	verif.Reach("proper-prefix")
	verif.Assert(err != nil, "truncated-dump-rejected")
}
