package props

import (
	"bytes"

	"github.com/wkhere/bcl"

	"verifharness/symio"
	"verifharness/verif"
)

func c16Dump(p *bcl.Prog) []byte {
	var b bytes.Buffer
	if p.Dump(&b) != nil {
		panic("dump failed")
	}
	return b.Bytes()
}

// C16_ParseTwice: parsing the same (symbolic) input twice in one process
// gives a byte-identical program and identical diagnostics; the second call
// writes no package-level state.
func C16_ParseTwice() {
	ctx := verif.Choice("context", 3)
	p := verif.Bytes("payload", 2)
	src := append(append([]byte(c06Contexts[ctx+1][0]), p...), c06Contexts[ctx+1][1]...)
	out1, log1 := &symio.Writer{}, &symio.Writer{}
	p1, err1 := bcl.Parse(src, "x", bcl.OptOutput(out1), bcl.OptLogger(log1))
	g0 := verif.GlobalWrites()
	out2, log2 := &symio.Writer{}, &symio.Writer{}
	p2, err2 := bcl.Parse(src, "x", bcl.OptOutput(out2), bcl.OptLogger(log2))
	verif.Assert(verif.GlobalWrites() == g0 && g0 == 0, "no write to package-level state of the library")
	verif.Observe("err", err1 != nil)
	verif.Assert((err1 == nil) == (err2 == nil), "same outcome")
	verif.Assert(log1.String() == log2.String(), "same diagnostics")
	if err1 == nil && err2 == nil {
		verif.Assert(bytes.Equal(c16Dump(p1), c16Dump(p2)), "byte-identical compiled program")
		verif.Reach("parsed")
	} else {
		verif.Reach("rejected")
	}
}

// C16_ExecuteTwice: executing one Prog twice gives identical results, does
// not alter the Prog (dump before = dump after) and writes no global state.
func C16_ExecuteTwice() {
	src := c10Programs[verif.Choice("prog", len(c10Programs))]
	out, log := &symio.Writer{}, &symio.Writer{}
	p, err := bcl.Parse([]byte(src), "src", bcl.OptOutput(out), bcl.OptLogger(log))
	if err != nil {
		panic("rejected")
	}
	var phs, vals []any
	for _, text := range []string{"1001", "1002", "1003"} {
		if containsStr(src, text) {
			phs = append(phs, placeholderValue(text))
			vals = append(vals, verif.Int("k"+text))
		}
	}
	patchConsts(p, phs, vals)
	// snapshot of the program's parts (comparing dumps would fork on the
	// varint size class of every symbolic constant)
	code0 := append([]byte(nil), bcl.VerifCode(p)...)
	consts0 := append([]any(nil), bcl.VerifConsts(p)...)
	pos0 := append([]int(nil), bcl.VerifPositions(p)...)
	lfs0 := append([]int(nil), bcl.VerifLfs(p)...)
	g0 := verif.GlobalWrites()
	stats := bcl.OptStats(verif.Bool("stats"))
	sw := &symio.Writer{}
	b1, bind1, e1 := bcl.Execute(p, stats, bcl.OptOutput(sw))
	o1, l1, s1 := out.String(), log.String(), sw.String()
	out.Buf, log.Buf, sw.Buf = nil, nil, nil
	b2, bind2, e2 := bcl.Execute(p, stats, bcl.OptOutput(sw))
	verif.Assert(s1 == sw.String(), "same statistics")
	verif.Assert(verif.GlobalWrites() == g0, "no write to package-level state of the library")
	same := bytes.Equal(code0, bcl.VerifCode(p)) && len(consts0) == len(bcl.VerifConsts(p)) &&
		len(pos0) == len(bcl.VerifPositions(p)) && len(lfs0) == len(bcl.VerifLfs(p))
	if same {
		for i, c := range bcl.VerifConsts(p) {
			same = same && sameConst(c, consts0[i])
		}
		for i, x := range bcl.VerifPositions(p) {
			same = same && x == pos0[i]
		}
		for i, x := range bcl.VerifLfs(p) {
			same = same && x == lfs0[i]
		}
	}
	verif.Assert(same, "executing a Prog does not alter it")
	verif.Assert(errText(e1) == errText(e2), "same error")
	verif.Assert(o1 == out.String() && l1 == log.String(), "same output and warnings")
	verif.Assert(blocksEqual(b1, b2) && bindingEqual(bind1, bind2), "same blocks and binding")
	verif.Observe("err", errText(e1))
	verif.Reach("compared")
}

// C16_Schedules: the outcome of ParseFile is the same under every explored
// goroutine schedule (dump and diagnostics recorded per input and required to
// agree across all paths).
func C16_Schedules() {
	k := verif.Choice("input", 5)
	in := c11Inputs[k]
	chunks := []int{7, 1000}
	if verif.Tier() == 1 {
		chunks = []int{3, 7, 1000}
	}
	chunk := chunks[verif.Choice("chunk", len(chunks))]
	var script []symio.Step
	for i := 0; i*chunk < len(in.src); i++ {
		script = append(script, symio.Step{N: chunk})
	}
	if verif.Choice("read-error", 2) == 1 {
		// an I/O error on the third read, whatever the parser has found by then
		if len(script) > 2 {
			script = script[:2]
		}
		script = append(script, symio.Step{N: 0, Err: errC11})
		// what was delivered before the error depends on the chunk size, so
		// the outcome is recorded per (input, chunk size)
		k += 100 + 1000*chunk
	}
	f := &symio.File{Data: []byte(in.src), Script: script, FileName: "f"}
	out, log := &symio.Writer{}, &symio.Writer{}
	p, err := bcl.ParseFile(f, bcl.OptOutput(out), bcl.OptLogger(log))
	res := "err=" + errText(err) + " log=" + log.String()
	if err == nil {
		res += " dump=" + string(c16Dump(p))
	}
	verif.Record("outcome/input"+itoa(k), res)
	verif.Reach("returned")
}

// C16_SchedulesDeep: the same with two preemptions, on the inputs read in
// two or three pieces (whole-input reads and 16-byte reads).
func C16_SchedulesDeep() {
	k := verif.Choice("input", 5)
	in := c11Inputs[k]
	chunk := []int{16, 1000}[verif.Choice("chunk", 2)]
	var script []symio.Step
	for i := 0; i*chunk < len(in.src); i++ {
		script = append(script, symio.Step{N: chunk})
	}
	if verif.Choice("read-error", 2) == 1 {
		if len(script) > 1 {
			script = script[:1]
		}
		script = append(script, symio.Step{N: 0, Err: errC11})
		k += 100 + 1000*chunk
	}
	f := &symio.File{Data: []byte(in.src), Script: script, FileName: "f"}
	out, log := &symio.Writer{}, &symio.Writer{}
	p, err := bcl.ParseFile(f, bcl.OptOutput(out), bcl.OptLogger(log))
	res := "err=" + errText(err) + " log=" + log.String()
	if err == nil {
		res += " dump=" + string(c16Dump(p))
	}
	verif.Record("outcome/input"+itoa(k), res)
	verif.Reach("returned")
}

type T16 struct {
	Name  string
	AB    int
	C     int
	Inner Inner
}

// C16_MapOrder: Bind results and errors must not depend on map iteration
// order: keys colliding on one field, two named inner blocks of one type, two
// faulty fields.
func C16_MapOrder() {
	c := verif.Choice("case", 6)
	var blk bcl.Block
	switch c {
	case 0: // two keys folding to one field
		blk = bcl.Block{Type: "t16", Fields: map[string]any{"a_b": 1, "ab": 2, "c": 3}}
	case 1: // two named inner blocks of one type
		blk = bcl.Block{Type: "t16", Fields: map[string]any{
			"inner.x": bcl.Block{Type: "inner", Name: "x", Fields: map[string]any{"x": 1}},
			"inner.y": bcl.Block{Type: "inner", Name: "y", Fields: map[string]any{"x": 2}},
		}}
	case 2: // two faulty fields: the error must be the same one
		blk = bcl.Block{Type: "t16", Fields: map[string]any{"nosuch": 1, "c": "wrong type", "ab": 5}}
	case 3: // plain
		blk = bcl.Block{Type: "t16", Name: "n", Fields: map[string]any{"ab": 1, "c": 2}}
	case 4: // keys differing only in letter case
		blk = bcl.Block{Type: "t16", Fields: map[string]any{"c": 1, "C": 2, "Ab": 3, "aB": 4}}
	default: // two faulty keys differing only in case
		blk = bcl.Block{Type: "t16", Fields: map[string]any{"y": 1, "Y": 2}}
	}
	var t T16
	err := bcl.Bind(&t, bcl.StructBinding{Value: blk})
	res := "err=" + errText(err) + " ab=" + itoa(t.AB) + " c=" + itoa(t.C) + " inner=" + t.Inner.Name + "/" + itoa(t.Inner.X)
	verif.Record("bind/case"+itoa(c), res)
	verif.Reach("returned")
}

func sameConst(a, b any) bool {
	if af, ok := a.(float64); ok {
		bf, ok := b.(float64)
		return ok && sameFloat(af, bf)
	}
	return a == b
}

// C16_ExecuteOptions: options given to Execute do not stick to the Prog: a
// later plain Execute behaves like the first one.
func C16_ExecuteOptions() {
	src := "var x = 1001\nprint x\ndef t {\n f = x\n}\nbind t -> struct\nbind t -> slice\n"
	out, log := &symio.Writer{}, &symio.Writer{}
	p, err := bcl.Parse([]byte(src), "src", bcl.OptOutput(out), bcl.OptLogger(log))
	if err != nil {
		panic("rejected")
	}
	patchConst(p, 1001, verif.Int("k"))
	bcl.Execute(p)
	o1, l1 := out.String(), log.String()
	out.Buf, log.Buf = nil, nil
	other, otherLog := &symio.Writer{}, &symio.Writer{}
	bcl.Execute(p, bcl.OptOutput(other), bcl.OptLogger(otherLog), bcl.OptTrace(verif.Bool("trace")), bcl.OptStats(verif.Bool("stats")))
	out.Buf, log.Buf = nil, nil
	bcl.Execute(p)
	verif.Assert(out.String() == o1 && log.String() == l1, "a plain Execute after one with options behaves like the first")
	verif.Reach("compared")
}
