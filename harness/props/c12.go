package props

import (
	"strings"
	"sync"

	"github.com/wkhere/bcl"

	"verifharness/symio"
	"verifharness/verif"
)

var c12Inputs = []string{
	// syntax errors spread over the input, each followed by more than a token
	// buffer's worth of tokens, so the parser reports while the lexer refills
	"print )\nvar a = 1\nvar b = a + 2 * 3 - 4\nprint ( b\nvar c = b + a + 1 + 2 + 3\nprint c c\nvar d = 1 + 2 + 3 + 4 + 5 + 6\nprint d\n",
	"var a = 1\nvar b = 2\nprint a + b\ndef t {\n f = a\n g = b + f\n}\nprint a * b - 1\n",
	"print 1 +\nprint 2 +\nprint 3 +\nprint 4 +\nprint 5 + 6 + 7 + 8 + 9 + 10 + 11 + 12\nprint $\nprint 13\n",
	strings.Repeat("eval )\n", 70) + "print 1\n",   // more line feeds than the line table's initial capacity
	"print $\nprint 1\nprint 2\nprint 3\n",         // early lexical failure, reader still running
	"def t {\n f = 1\n}\n$\nprint 1\n",             // a complete block, then a lexical failure within the look-ahead
	"def t { x = 1 } $ def u { y = 2 }\nprint 3\n", // the same on one line
}

// C12_Pipeline: one ParseFile call reading 7 (or 3, or 64) bytes at a time;
// the engine logs every memory access and synchronisation event and decides
// by SMT whether two conflicting accesses are unordered.
func C12_Pipeline() {
	src := c12Inputs[verif.Choice("input", len(c12Inputs))]
	chunks := []int{7, 3, 64}
	if verif.Tier() == 1 {
		chunks = []int{7, 3, 64, 1, 2, 5, 11, 16, 4096}
	}
	chunk := chunks[verif.Choice("chunk", len(chunks))]
	if len(src) > 300 && chunk < 64 {
		// the long input is read in larger pieces (the event log of a
		// 160-read execution makes the happens-before queries needlessly many)
		chunk = 64
	}
	var script []symio.Step
	zero := verif.Choice("zero-reads", 2) == 1
	for i := 0; i*chunk < len(src); i++ {
		script = append(script, symio.Step{N: chunk})
		if zero {
			script = append(script, symio.Step{N: 0})
		}
	}
	// a read fault after 1, 2 or 4 delivered reads (or none)
	if at := []int{-1, 1, 2, 4}[verif.Choice("fault", 4)]; at >= 0 && at < len(script) {
		script = append(script[:at:at], symio.Step{N: 0, Err: errC12Fault})
	}
	f := &symio.File{Data: []byte(src), Script: script, FileName: "f"}
	out, log := &symio.Writer{}, &symio.Writer{}
	_, err := bcl.ParseFile(f, bcl.OptOutput(out), bcl.OptLogger(log))
	// the caller looks at its writers as soon as ParseFile has returned: every
	// write the library made to them must be ordered before the return
	if len(log.Buf) < 0 || len(out.Buf) < 0 {
		panic("unreachable")
	}
	verif.Quiesce()
	verif.Observe("err", err != nil)
	verif.Reach("returned")
}

var errC12Fault = errorString("device failure")

type errorString string

func (e errorString) Error() string { return string(e) }

type lockedWriter struct {
	mu  sync.Mutex
	buf []byte
}

func (w *lockedWriter) Write(p []byte) (int, error) {
	w.mu.Lock()
	w.buf = append(w.buf, p...)
	w.mu.Unlock()
	return len(p), nil
}

// C12_TwoParses: two Parse calls on different inputs run concurrently; each
// result equals the sequential one and the library's own state is race-free.
func C12_TwoParses() {
	a, b := c12Inputs[1], "var x = 5\nprint x * x\ndef u \"n\" {\n k = x\n}\nbind u -> struct\n"
	seqA := c16DumpOf(a)
	seqB := c16DumpOf(b)
	var da, db []byte
	done := make(chan struct{})
	go func() {
		da = c16DumpOf(a)
		done <- struct{}{}
	}()
	go func() {
		db = c16DumpOf(b)
		done <- struct{}{}
	}()
	<-done
	<-done
	verif.Assert(string(da) == string(seqA) && string(db) == string(seqB), "concurrent parses equal the sequential ones")
	verif.Reach("returned")
}

func c16DumpOf(src string) []byte {
	out, log := &symio.Writer{}, &symio.Writer{}
	p, err := bcl.Parse([]byte(src), "x", bcl.OptOutput(out), bcl.OptLogger(log))
	if err != nil {
		return []byte("error: " + log.String())
	}
	return c16Dump(p)
}

// C12_SharedProg: one Prog executed from two goroutines into a writer that
// is safe for concurrent use: no race on the Prog, results as sequential.
func C12_SharedProg() {
	src := "var x = 1001\nprint x + 1\ndef t {\n f = x * 2\n}\nbind t -> struct\nbind t -> slice\nbind t:1 -> struct\nprint \"end\"\n"
	w := &lockedWriter{}
	log := &lockedWriter{}
	p, err := bcl.Parse([]byte(src), "x", bcl.OptOutput(w), bcl.OptLogger(log))
	if err != nil {
		panic("rejected")
	}
	patchConst(p, 1001, verif.Int("k"))
	var b1, b2 []bcl.Block
	var e1, e2 error
	done := make(chan struct{})
	go func() {
		b1, _, e1 = bcl.Execute(p)
		done <- struct{}{}
	}()
	go func() {
		b2, _, e2 = bcl.Execute(p)
		done <- struct{}{}
	}()
	<-done
	<-done
	b0, _, e0 := bcl.Execute(p)
	verif.Assert(e0 == nil && e1 == nil && e2 == nil, "no error")
	verif.Assert(blocksEqual(b0, b1) && blocksEqual(b0, b2), "concurrent executions equal the sequential one")
	verif.Assert(strings.Count(string(log.buf), "WARNING") == 6, "every execution logs its own warnings")
	verif.Reach("returned")
}

// C12_SharedFailing: one Prog whose execution ends in a runtime error
// (formatting the error reads the line table) executed from two goroutines.
func C12_SharedFailing() {
	src := "var x = 1001\nprint x\nprint x / 0\n"
	w := &lockedWriter{}
	log := &lockedWriter{}
	p, err := bcl.Parse([]byte(src), "x", bcl.OptOutput(w), bcl.OptLogger(log))
	if err != nil {
		panic("rejected")
	}
	patchConst(p, 1001, verif.Int("k"))
	var e1, e2 error
	done := make(chan struct{})
	// the concurrent executions come first: nothing is warmed up for them
	go func() {
		_, _, e1 = bcl.Execute(p)
		done <- struct{}{}
	}()
	go func() {
		_, _, e2 = bcl.Execute(p)
		done <- struct{}{}
	}()
	<-done
	<-done
	_, _, e0 := bcl.Execute(p)
	verif.Assert(e0 != nil && errText(e0) == errText(e1) && errText(e0) == errText(e2), "same runtime error from concurrent executions")
	verif.Reach("returned")
}

type c12A struct {
	Name string
	X    int `bcl:"ex"`
	Y    string
}

type c12B struct {
	Name  string
	P     float64
	Inner struct {
		Q int `bcl:"qu"`
	}
}

// C12_TwoUnmarshals: two independent Unmarshal calls (parse, execute, Bind
// through reflection into different struct types) run concurrently: results
// as sequential, no race on the library's own state.
func C12_TwoUnmarshals() {
	srcA := "def c12a \"a\" {\n ex = 1001\n y = \"s\"\n}\nbind c12a -> struct\n"
	srcB := "def c12b \"b\" {\n p = 2.5\n def inner {\n  qu = 7\n }\n}\nbind c12b -> struct\n"
	var a c12A
	var b c12B
	var ea, eb error
	done := make(chan struct{})
	go func() {
		ea = bcl.Unmarshal([]byte(srcA), &a, bcl.OptOutput(&lockedWriter{}), bcl.OptLogger(&lockedWriter{}))
		done <- struct{}{}
	}()
	go func() {
		eb = bcl.Unmarshal([]byte(srcB), &b, bcl.OptOutput(&lockedWriter{}), bcl.OptLogger(&lockedWriter{}))
		done <- struct{}{}
	}()
	<-done
	<-done
	verif.Assert(ea == nil && eb == nil, "no error")
	verif.Assert(a.Name == "a" && a.X == 1001 && a.Y == "s", "first result as sequential")
	verif.Assert(b.Name == "b" && b.P == 2.5 && b.Inner.Q == 7, "second result as sequential")
	verif.Reach("returned")
}

type c12T struct {
	Name string
	F    int
}

// C12_SharedSliceBind: one Prog with a slice binding executed from two
// goroutines, each of which goes on to use its binding (Bind into its own
// slice) while the other may still be executing; then two concurrent
// Unmarshal calls into slices. Whatever a binding refers to belongs to the
// caller that received it.
func C12_SharedSliceBind() {
	src := "def c12t \"a\" {\n f = 1001\n}\ndef c12t \"b\" {\n f = 2\n}\nbind c12t:all -> slice\n"
	w, log := &lockedWriter{}, &lockedWriter{}
	p, err := bcl.Parse([]byte(src), "x", bcl.OptOutput(w), bcl.OptLogger(log))
	if err != nil {
		panic("rejected")
	}
	k := verif.Int("k")
	patchConst(p, 1001, k)
	var r1, r2 []c12T
	var e1, e2 error
	done := make(chan struct{})
	run := func(r *[]c12T, e *error) {
		_, bn, err := bcl.Execute(p)
		if err == nil {
			err = bcl.Bind(r, bn)
		}
		*e = err
		done <- struct{}{}
	}
	go run(&r1, &e1)
	go run(&r2, &e2)
	<-done
	<-done
	verif.Assert(e1 == nil && e2 == nil, "no error")
	want := []c12T{{"a", k}, {"b", 2}}
	verif.Assert(len(r1) == 2 && len(r2) == 2 && r1[0] == want[0] && r1[1] == want[1] && r2[0] == want[0] && r2[1] == want[1], "both callers get the records")
	// sequentially: a binding stays what it was after later executions
	_, bnA, _ := bcl.Execute(p)
	other, _ := bcl.Parse([]byte("def c12t \"z\" {\n f = 9\n}\nbind c12t:all -> slice\n"), "y", bcl.OptOutput(w), bcl.OptLogger(log))
	bcl.Execute(other)
	var r3 []c12T
	verif.Assert(bcl.Bind(&r3, bnA) == nil && len(r3) == 2 && r3[0] == want[0] && r3[1] == want[1], "an earlier binding is not changed by a later execution")
	verif.Reach("returned")
}
