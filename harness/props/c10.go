package props

import (
	"strings"

	"github.com/wkhere/bcl"

	"verifharness/refbcl"
	"verifharness/symio"
	"verifharness/verif"
)

var c10Programs = []string{
	"print 1001 and 1002 or 1003\n",
	"print (1001 or 1002) and (1003 or 1001)\n",
	"print not 1001 and 1002\n",
	"print 1001 and 1002 and 1003\n",
	"print 1001 or 1002 or 1003\n",
	"var x = 1001 and 1002\nvar y = x or 1003\nprint y\n",
	"var x = 0\nprint (x = 1001) and (x = 1002) or (x = 1003)\nprint x\n",
	"var a = 1001\ndef t {\n var b = a or 1002\n f = b and a\n def u {\n var c = f or b\n g = c and 1003\n}\n h = not f\n}\nprint a\n",
	"def t {\n var p = 1001\n var q = 1002\n var r = p and q or 1003\n f = r\n}\ndef t \"n\" {\n f = 1001 or 1002\n}\nbind t:first -> struct\n",
	"var v1 = 1001\nvar v2 = v1 and 1002\nvar v3 = v2 or v1\neval v1 = v3 and (v2 = 1003)\nprint v1 + v2\n",
	"def a {\n def b {\n def c {\n var z = 1001 and 1002\n f = z or 1003\n}\n}\n}\n",
	"print 1001 == 1002 and 1001 < 1003 or not (1002 >= 1003)\n",
	"print \"s\" + 1001 and \"t\" * 2 or nil\n",
	"var x\nvar y\nvar z\neval x = (y = 1001) or (z = 1002)\nprint x\nprint y\nprint z\n",
	"def t {\n f = 1001\n f = f and 1002\n g = (f = 1003) or f\n}\n",
	"print -1001 and +1002 or - - 1003\n",
	"print not (1001 and 1002 <= 1003)\n",
	"print not (1001 or 1002 != 1003)\n",
	"def t {\n f = not (1001 and 1002 >= 1003)\n g = not (1001 == 1002) and not (1002 <= 1003)\n}\n",
	"var x = not (1001 or 1002) == not 1003\nprint x\n",
}

// stackEffect gives (pops, pushes) of an instruction per the recorded format.
func c10Effect(in refbcl.Instr) (int, int) {
	switch in.Op {
	case refbcl.OpPRINT, refbcl.OpPOP:
		return 1, 0
	case refbcl.OpSETLOCAL, refbcl.OpSETFIELD, refbcl.OpNOT, refbcl.OpNEG, refbcl.OpUNPLUS, refbcl.OpJFALSE:
		return 1, 1
	case refbcl.OpGETLOCAL, refbcl.OpGETFIELD, refbcl.OpCONST, refbcl.OpNIL, refbcl.OpZERO, refbcl.OpONE, refbcl.OpTRUE, refbcl.OpFALSE:
		return 0, 1
	case refbcl.OpEQ, refbcl.OpLT, refbcl.OpGT, refbcl.OpADD, refbcl.OpSUB, refbcl.OpMUL, refbcl.OpDIV:
		return 2, 1
	case refbcl.OpPOPN:
		return in.A, 0
	}
	return 0, 0
}

// c10Static checks the structural validity of a compiled program with an
// independent decoder and a stack-depth dataflow over all control-flow paths.
func c10Static(p *bcl.Prog) {
	code := bcl.VerifCode(p)
	consts := bcl.VerifConsts(p)
	ins, ok := refbcl.DecodeCode(code)
	verif.Assert(ok, "instructions tile the code")
	if !ok || len(ins) == 0 {
		return
	}
	verif.Assert(ins[len(ins)-1].Op == refbcl.OpRET, "code ends in RET")
	verif.Assert(len(bcl.VerifPositions(p)) == len(code), "one position per code byte")
	start := map[int]int{}
	for i, in := range ins {
		start[in.PC] = i
	}
	isStr := func(i int) bool {
		if i < 0 || i >= len(consts) {
			return false
		}
		_, ok := consts[i].(string)
		return ok
	}
	for _, in := range ins {
		switch in.Op {
		case refbcl.OpCONST:
			verif.Assert(in.A < len(consts), "CONST refers to an existing constant")
		case refbcl.OpSETFIELD, refbcl.OpGETFIELD:
			verif.Assert(isStr(in.A), "field name is a string constant")
		case refbcl.OpDEFBLOCK:
			verif.Assert(isStr(in.A) && isStr(in.B), "block type and name are string constants")
		case refbcl.OpBIND:
			verif.Assert(isStr(in.A), "bind type is a string constant")
			t, s := in.B>>4, in.B&15
			verif.Assert((t == 1 && (s == 1 || s == 2 || s == 3)) || (t == 2 && (s == 1 || s == 2 || s == 3 || s == 15)), "bind operand is one of the seven documented pairs")
		case refbcl.OpJUMP, refbcl.OpJFALSE:
			_, ok := start[in.PC+in.Len+in.A]
			verif.Assert(ok, "jump lands on an instruction boundary inside the code")
		case refbcl.OpLOOP:
			_, ok := start[in.PC+in.Len-in.A]
			verif.Assert(ok, "loop lands on an instruction boundary inside the code")
		}
	}
	// dataflow: operand stack depth and block depth at every instruction
	depth := make([]int, len(ins))
	bdepth := make([]int, len(ins))
	seen := make([]bool, len(ins))
	work := []int{0}
	seen[0] = true
	for len(work) > 0 {
		i := work[len(work)-1]
		work = work[:len(work)-1]
		in := ins[i]
		d, bd := depth[i], bdepth[i]
		pops, pushes := c10Effect(in)
		verif.Assert(d >= pops, "stack never underflows")
		switch in.Op {
		case refbcl.OpGETLOCAL:
			verif.Assert(in.A < d, "GETLOCAL reads a live slot")
		case refbcl.OpSETLOCAL:
			verif.Assert(in.A < d, "SETLOCAL writes a live slot")
		case refbcl.OpSETFIELD, refbcl.OpGETFIELD:
			verif.Assert(bd > 0, "field access inside a block")
		case refbcl.OpDEFBLOCK:
			bd++
		case refbcl.OpENDBLOCK:
			verif.Assert(bd > 0, "ENDBLOCK closes an open block")
			bd--
		case refbcl.OpRET:
			verif.Assert(d == 0, "operand stack empty at RET")
			verif.Assert(bd == 0, "no open block at RET")
			continue
		}
		nd := d - pops + pushes
		var succ []int
		next := in.PC + in.Len
		switch in.Op {
		case refbcl.OpJUMP:
			succ = []int{start[next+in.A]}
		case refbcl.OpLOOP:
			succ = []int{start[next-in.A]}
		case refbcl.OpJFALSE:
			succ = []int{start[next+in.A], start[next]}
		default:
			j, ok := start[next]
			verif.Assert(ok, "fall-through stays inside the code")
			if !ok {
				continue
			}
			succ = []int{j}
		}
		for _, j := range succ {
			if seen[j] {
				verif.Assert(depth[j] == nd, "same stack depth along all paths into an instruction")
				verif.Assert(bdepth[j] == bd, "same block depth along all paths into an instruction")
				continue
			}
			seen[j] = true
			depth[j], bdepth[j] = nd, bd
			work = append(work, j)
		}
	}
	for i := range ins {
		verif.Assert(seen[i], "no unreachable instruction")
	}
}

// C10_WellFormed: compiled programs are structurally valid (independent
// decoder + dataflow over all control-flow paths) and, with every constant
// symbolic so that both outcomes of every JFALSE are feasible, the real VM
// never reads outside its stack and never ends in the internal error.
func C10_WellFormed() {
	src := c10Programs[verif.Choice("prog", len(c10Programs))]
	out, log := &symio.Writer{}, &symio.Writer{}
	p, err := bcl.Parse([]byte(src), "src", bcl.OptOutput(out), bcl.OptLogger(log))
	if err != nil {
		panic("c10: program rejected: " + log.String())
	}
	c10Static(p)
	var phs, vals []any
	for _, text := range []string{"1001", "1002", "1003"} {
		if containsStr(src, text) {
			phs = append(phs, placeholderValue(text))
			vals = append(vals, verif.Int("k"+text))
		}
	}
	patchConsts(p, phs, vals)
	_, _, xerr := bcl.Execute(p)
	verif.Observe("err", errClass(xerr))
	verif.Assert(errClass(xerr) != "internal", "no internal error (non-empty stack at RET)")
	verif.Reach("executed")
}

// C10_Generated: the same static checks on the C02/C03/C04 generator programs.
func C10_Generated() {
	g := &c02Gen{values: map[string]any{}}
	switch verif.Choice("family", 3) {
	case 0:
		g.stmt("var a = K")
		g.stmt(c02Top[verif.Choice("pre2", len(c02Top))])
		g.src += "def t {\n"
		g.stmt(c02In[verif.Choice("in1", len(c02In))])
		g.src += "def u {\n"
		g.stmt(c02In[verif.Choice("in2", len(c02In))])
		g.src += "}\n"
		g.stmt([]string{"print a", "b = a", "var b = a"}[verif.Choice("in3", 3)])
		g.src += "}\nprint a\n"
	case 1:
		n := 1 + verif.Choice("ntop", 2)
		for i := 0; i < n; i++ {
			g.stmt(c03Templates[verif.Choice("block", len(c03Templates))])
		}
	default:
		g.src += "def t \"a\" {\n f = 1\n}\ndef t {\n}\n"
		g.src += c04Binds[verif.Choice("bind", 9)] + "\nbind t:last -> slice\n"
	}
	out, log := &symio.Writer{}, &symio.Writer{}
	p, err := bcl.Parse([]byte(g.src), "src", bcl.OptOutput(out), bcl.OptLogger(log))
	if err != nil {
		verif.Reach("rejected")
		return
	}
	c10Static(p)
	verif.Reach("checked")
}

// C10_Growth: CONCRETE INSTANCES - n variable declarations followed by
// short-circuit expressions, so that jump emission and patching happen at
// every position relative to the growth steps of the code buffer.
func C10_Growth() {
	n := verif.Choice("n", 70)
	src := ""
	for i := 0; i < n; i++ {
		src += "var v" + itoa(i) + "\n"
	}
	src += "print 5 or (2+3+4+5+6+7+8+9)\nprint 0 and (1 or 2) or 3\n"
	out, log := &symio.Writer{}, &symio.Writer{}
	p, err := bcl.Parse([]byte(src), "src", bcl.OptOutput(out), bcl.OptLogger(log))
	if err != nil {
		panic("c10: program rejected: " + log.String())
	}
	c10Static(p)
	_, _, xerr := bcl.Execute(p)
	verif.Assert(xerr == nil && out.String() == "5\n3\n", "executes to the expected output")
	verif.Reach("checked")
}

// C10_Wide: CONCRETE INSTANCES - more than 240 locals, constants and field
// names, so that operands need two-byte varints.
func C10_Wide() {
	n := []int{239, 240, 241, 242, 255, 256, 300}[verif.Choice("n", 7)]
	src := ""
	what := verif.Choice("what", 6)
	if what == 5 { // block type / name / field constants beyond index 240
		for i := 0; i < n; i++ {
			src += "print " + itoa(1000+i) + "\n"
		}
		src += "def blk \"nm\" {\n f = 1\n def inner \"in\" {\n  g = f\n }\n}\nbind blk -> struct\n"
		what = 9
	}
	if what == 3 { // constant indices across the 2287/2288 varint boundary
		n = []int{2286, 2287, 2288, 2289}[n%4]
		what = 2
	}
	if what == 4 { // a skipped operand longer than 255 bytes (two-byte jump distance)
		terms := []int{80, 100, 128, 130, 200, 300, 1000}[n%7]
		src = "print 0 and (1"
		for i := 0; i < terms; i++ {
			src += "+" + itoa(2+i%7)
		}
		src += ")\nprint 1 or (2"
		for i := 0; i < terms; i++ {
			src += "*" + itoa(1+i%3)
		}
		src += ")\n"
		what = 9
	}
	switch what {
	case 9:
	case 0: // locals
		for i := 0; i < n; i++ {
			src += "var v" + itoa(i) + " = " + itoa(i) + "\n"
		}
		src += "print 7 or v" + itoa(n-1) + "\nprint 0 or v" + itoa(n-1) + "\neval v" + itoa(n-1) + " = 1\n"
	case 1: // field names
		src += "def t {\n"
		for i := 0; i < n; i++ {
			src += "f" + itoa(i) + " = " + itoa(i) + "\n"
		}
		src += "g = f" + itoa(n-1) + " or f0\n}\n"
	default: // constants
		for i := 0; i < n; i++ {
			src += "print " + itoa(1000+i) + "\n"
		}
		src += "print 1 and " + itoa(5000) + "\n"
	}
	out, log := &symio.Writer{}, &symio.Writer{}
	p, err := bcl.Parse([]byte(src), "src", bcl.OptOutput(out), bcl.OptLogger(log), bcl.OptDisasm(true))
	if err != nil {
		panic("c10: program rejected: " + log.String())
	}
	// disassembly: one line per instruction (C19's claim at large operands)
	ins, ok := refbcl.DecodeCode(bcl.VerifCode(p))
	lines := 0
	for _, l := range strings.Split(out.String(), "\n") {
		if len(l) >= 5 && l[4] == ' ' && isDigits(l[:4]) {
			lines++
		}
	}
	verif.Assert(ok && lines == len(ins), "disassembly lists each instruction once")
	c10Static(p)
	out.Buf = nil
	_, _, xerr := bcl.Execute(p)
	verif.Assert(xerr == nil, "executes without error")
	verif.Reach("checked")
}

// C10_OperandBytes: CONCRETE INSTANCES - scopes whose last instruction before
// the scope's closing pop carries an operand byte equal to each opcode number
// (a local slot k, or constant number k, for k = 0..40): operand bytes must
// never be taken for instructions by the emitter.
func C10_OperandBytes() {
	k := verif.Choice("k", 41)
	src := ""
	want := ""
	switch verif.Choice("what", 3) {
	case 0: // block scope ending in `var last = v<k>`
		src = "def t {\n"
		for i := 0; i <= k; i++ {
			src += " var v" + itoa(i) + " = " + itoa(i+100) + "\n"
		}
		src += " f = v0\n var last = v" + itoa(k) + "\n}\nprint 1\n"
		want = "1\n"
	case 1: // block scope ending in a string literal that is constant number k
		for i := 0; i < k; i++ {
			src += "eval " + itoa(7000+i) + "\n"
		}
		src += "def t {\n var last = \"z\"\n}\nprint 2\n"
		want = "2\n"
	default: // toplevel: expression statement ending in local k, then a block
		for i := 0; i <= k; i++ {
			src += "var v" + itoa(i) + " = " + itoa(i+100) + "\n"
		}
		src += "def t {\n var a = v" + itoa(k) + "\n var b = a\n}\neval v" + itoa(k) + "\nprint v" + itoa(k) + "\n"
		want = itoa(k+100) + "\n"
	}
	out, log := &symio.Writer{}, &symio.Writer{}
	p, err := bcl.Parse([]byte(src), "src", bcl.OptOutput(out), bcl.OptLogger(log))
	if err != nil {
		panic("c10: program rejected: " + log.String())
	}
	c10Static(p)
	_, _, xerr := bcl.Execute(p)
	verif.Observe("err", errText(xerr))
	verif.Assert(xerr == nil && out.String() == want, "executes to the expected output")
	verif.Reach("checked")
}

// C10_Expr: static well-formedness (tiling, jump targets, one stack depth per
// instruction on every path) of every expression of three binary operators
// (one representative per precedence level; thorough: all twelve operators) in
// four parenthesis / prefix forms, as a print statement, a variable
// initialiser and a block field.
func C10_Expr() {
	reps := []string{"or", "and", "==", "<", "+", "*", "!=", ">="}
	if verif.Tier() == 1 {
		reps = c01BinOps
	}
	op1 := reps[verif.Choice("op1", len(reps))]
	op2 := reps[verif.Choice("op2", len(reps))]
	op3 := reps[verif.Choice("op3", len(reps))]
	var e string
	switch verif.Choice("form", 4) {
	case 0:
		e = "a " + op1 + " 2 " + op2 + " b " + op3 + " 4"
	case 1:
		e = "not (a " + op1 + " 2) " + op2 + " not (b " + op3 + " 4)"
	case 2:
		e = "a " + op1 + " (2 " + op2 + " (b " + op3 + " -4))"
	default:
		e = "(a = 1 " + op1 + " 2) " + op2 + " not not b " + op3 + " (b = 4)"
	}
	var src string
	switch verif.Choice("place", 3) {
	case 0:
		src = "var a = 1\nvar b = 3\nprint " + e + "\n"
	case 1:
		src = "var a = 1\nvar b = 3\nvar c = " + e + "\nprint c\n"
	default:
		src = "var a = 1\nvar b = 3\ndef t {\n f = " + e + "\n g = f\n}\n"
	}
	out, log := &symio.Writer{}, &symio.Writer{}
	p, err := bcl.Parse([]byte(src), "src", bcl.OptOutput(out), bcl.OptLogger(log))
	if err != nil {
		panic("c10: program rejected: " + src + ": " + log.String())
	}
	c10Static(p)
	_, _, xerr := bcl.Execute(p)
	verif.Assert(errClass(xerr) != "internal", "no internal error (non-empty stack at RET)")
	verif.Reach("checked")
}

// C10_LongJump: CONCRETE INSTANCES - a short-circuit operand whose code is
// just below and above the 65535 bytes a jump operand can span: the program is
// rejected, or accepted and well-formed (never accepted with a wrapped jump).
func C10_LongJump() {
	// every literal makes a constant of its own, so a term takes 5 bytes of
	// code once the constant index needs three: the limit is near 13100 terms
	terms := []int{12000, 13050, 13100, 13150, 14000, 20000}[verif.Choice("terms", 6)]
	op := []string{"and", "or"}[verif.Choice("op", 2)]
	var sb strings.Builder
	sb.WriteString("print 0 " + op + " (1")
	for i := 0; i < terms; i++ {
		sb.WriteString("+")
		sb.WriteString(itoa(2 + i%7))
	}
	sb.WriteString(")\nprint 7\n")
	out, log := &symio.Writer{}, &symio.Writer{}
	p, err := bcl.Parse([]byte(sb.String()), "src", bcl.OptOutput(out), bcl.OptLogger(log))
	verif.Observe("rejected", err != nil)
	if err != nil {
		verif.Reach("rejected")
		return
	}
	c10Static(p)
	_, _, xerr := bcl.Execute(p)
	verif.Assert(errClass(xerr) != "internal", "no internal error")
	verif.Reach("checked")
}

// C10_TwoProgs: two programs compiled one after the other are both
// well-formed afterwards and run to their own results (no shared buffers).
func C10_TwoProgs() {
	i, j := verif.Choice("first", len(c10Programs)), verif.Choice("second", 4)
	srcA, srcB := c10Programs[i], c10Programs[(i+1+j*5)%len(c10Programs)]
	oa, la := &symio.Writer{}, &symio.Writer{}
	pa, err := bcl.Parse([]byte(srcA), "a", bcl.OptOutput(oa), bcl.OptLogger(la))
	if err != nil {
		panic("c10: program rejected: " + la.String())
	}
	_, _, e0 := bcl.Execute(pa)
	want := oa.String()
	oa.Buf = nil
	ob, lb := &symio.Writer{}, &symio.Writer{}
	pb, err := bcl.Parse([]byte(srcB), "b", bcl.OptOutput(ob), bcl.OptLogger(lb))
	if err != nil {
		panic("c10: program rejected: " + lb.String())
	}
	c10Static(pa)
	c10Static(pb)
	_, _, e1 := bcl.Execute(pa)
	verif.Assert(errText(e0) == errText(e1) && oa.String() == want, "the first program still runs to its own result")
	verif.Reach("checked")
}
