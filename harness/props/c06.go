package props

import (
	"io"
	"strings"

	"github.com/wkhere/bcl"

	"verifharness/symio"
	"verifharness/verif"
)

var c06Contexts = [][2]string{
	{"", ""},
	{"print ", ""},
	{"var x = ", ""},
	{"def b {", "}"},
	{"def b \"", ""},
	{"bind b", ""},
	{"eval x = 1 ", ""},
	{"print \"", "\""},
	{"print 1e9", ""},
	{"def b { x = 1 }\nbind b:", " -> struct"},
}

func c06Run(src []byte, file bool) {
	out, log := &symio.Writer{}, &symio.Writer{}
	var p *bcl.Prog
	var err error
	if file {
		f := &symio.File{Data: src}
		switch verif.Choice("reader", 3) {
		case 1: // first half, then the rest together with io.EOF
			f.Script = []symio.Step{{N: len(src) / 2}, {N: len(src), Err: io.EOF}}
		case 2: // one byte at a time
			for i := 0; i < len(src); i++ {
				f.Script = append(f.Script, symio.Step{N: 1})
			}
		}
		p, err = bcl.ParseFile(f, bcl.OptOutput(out), bcl.OptLogger(log))
	} else {
		p, err = bcl.Parse(src, "x", bcl.OptOutput(out), bcl.OptLogger(log))
	}
	verif.Observe("parse-err", err != nil)
	if err != nil {
		verif.Reach("rejected")
		verif.Assert(len(log.Buf) > 0, "a rejection writes a diagnostic")
		return
	}
	verif.Reach("parsed")
	_, _, xerr := bcl.Execute(p)
	verif.Observe("exec-err", xerr != nil)
	if xerr != nil {
		verif.Reach("runtime-error")
	} else {
		verif.Reach("executed")
	}
}

// C06_Bytes: arbitrary bytes in ten syntactic contexts through Parse+Execute:
// the call returns a result or an error, never panics (implicit obligation).
func C06_Bytes() {
	var ctx, n int
	if verif.Tier() == 0 {
		// quick: five of the ten contexts, two arbitrary bytes
		ctx = []int{1, 3, 7, 8, 9}[verif.Choice("context", 5)]
		n = 2
	} else {
		// thorough: all ten contexts with two bytes, plus three arbitrary
		// bytes in five of them (after a number the lexer converts an
		// arbitrary three-byte character to a string, 61440 values: outside
		// what the engine enumerates)
		k := verif.Choice("context", len(c06Contexts)+5)
		ctx, n = k, 2
		if k >= len(c06Contexts) {
			ctx, n = []int{1, 3, 7, 0, 9}[k-len(c06Contexts)], 3
		}
	}
	payload := verif.Bytes("payload", n)
	src := []byte(c06Contexts[ctx][0])
	src = append(src, payload...)
	src = append(src, c06Contexts[ctx][1]...)
	c06Run(src, false)
}

// C06_FileBytes: the same through ParseFile (reader and parser goroutines): a
// panic in a library goroutine is a violation in its own right.
func C06_FileBytes() {
	ctx := verif.Choice("context", 4)
	payload := verif.Bytes("payload", 2)
	src := []byte(c06Contexts[ctx][0])
	src = append(src, payload...)
	src = append(src, c06Contexts[ctx][1]...)
	c06Run(src, true)
}

// C06_Repeat: string repetition with any count (results over 2^20 bytes are
// excluded by the property) and integer arithmetic on all values.
func C06_Repeat() {
	out, log := &symio.Writer{}, &symio.Writer{}
	p, err := bcl.Parse([]byte("print \"ab\" * 7777"), "x", bcl.OptOutput(out), bcl.OptLogger(log))
	if err != nil {
		panic("template rejected")
	}
	n := verif.Int("count")
	verif.Assume(n <= 4)
	patchConst(p, 7777, n)
	_, _, xerr := bcl.Execute(p)
	verif.Observe("exec-err", xerr != nil)
	if xerr != nil {
		verif.Reach("runtime-error")
	} else {
		verif.Reach("executed")
	}
}

// C06_IntArith: + - * / on all pairs of ints: no Go panic (overflow wraps,
// MinInt / -1 included), a zero divisor is a runtime error.
func C06_IntArith() {
	ops := []string{"+", "-", "*", "/"}
	op := ops[verif.Choice("op", len(ops))]
	out, log := &symio.Writer{}, &symio.Writer{}
	p, err := bcl.Parse([]byte("print 7777 "+op+" 8888"), "x", bcl.OptOutput(out), bcl.OptLogger(log))
	if err != nil {
		panic("template rejected")
	}
	a, b := verif.Int("a"), verif.Int("b")
	patchConsts(p, []any{7777, 8888}, []any{a, b})
	_, _, xerr := bcl.Execute(p)
	if op == "/" {
		verif.Assert((xerr != nil) == (b == 0), "error iff the divisor is zero")
	} else {
		verif.Assert(xerr == nil, "no error")
	}
	verif.Reach("done")
}

// C06_Limits: concrete instances at limit-1, limit, limit+1 of each
// implementation limit (no solver quantification; reported separately).
func C06_Limits() {
	k := verif.Choice("limit", 4)
	d := verif.Choice("delta", 3) - 1
	var src string
	switch k {
	case 0: // operand stack depth 1024; the value that does not fit is a literal or a variable
		n := 1024 + d
		if verif.Choice("inner", 2) == 0 {
			src = "print " + strings.Repeat("1+(", n-1) + "1" + strings.Repeat(")", n-1)
		} else {
			src = "var x = 2\nprint " + strings.Repeat("1+(", n-2) + "x" + strings.Repeat(")", n-2)
		}
	case 1: // block nesting 16
		n := 16 + d
		src = strings.Repeat("def b {", n) + strings.Repeat("}", n)
	case 2: // locals 1024
		n := 1024 + d
		var sb strings.Builder
		for i := 0; i < n; i++ {
			sb.WriteString("var v")
			sb.WriteString(itoa(i))
			sb.WriteString("\n")
		}
		// the next push: each kind of instruction that pushes
		last := []string{"print 1\n", "print v0\n", "print v0 + v1\n", "print true\n", "print \"s\"\n", "print 77\n", "print -v1\n",
			"def t {\n f = 1\n g = f\n}\n", "def t {\n var w = v0\n}\n"}
		sb.WriteString(last[verif.Choice("push", len(last))])
		src = sb.String()
	case 3: // jump distance 65535
		n := (65535+d*3)/3 + 1
		src = "print false and (" + strings.Repeat("1+", n) + "1)"
	}
	verif.Observe("len", len(src))
	c06Run([]byte(src), false)
}

func itoa(i int) string {
	if i == 0 {
		return "0"
	}
	var b []byte
	for i > 0 {
		b = append([]byte{byte('0' + i%10)}, b...)
		i /= 10
	}
	return string(b)
}

// C06_BlockValues: inside a block an identifier can denote a nested block
// (the child is stored under its type as a field); every operator applied to
// such a value must give a result or a runtime error, never a panic.
func C06_BlockValues() {
	exprs := []string{
		"b", "b == b", "b != b", "b == 1", "1 == b", "b == nil", "b < b", "b + 1", "\"s\" + b", "b * 2", "\"s\" * b",
		"- b", "+ b", "not b", "b and 1", "b or 1", "1 and b", "nil or b", "b / 0", "b - b", "x = b", "(b) == (b)", "b >= b",
	}
	e := exprs[verif.Choice("expr", len(exprs))]
	stmt := []string{"print ", "y = ", "var v = "}[verif.Choice("stmt", 3)]
	k := verif.Int("k")
	src := "def a {\n def b {\n f = 1001\n}\n " + stmt + e + "\n}\n"
	out, log := &symio.Writer{}, &symio.Writer{}
	p, err := bcl.Parse([]byte(src), "x", bcl.OptOutput(out), bcl.OptLogger(log))
	if err != nil {
		panic("rejected: " + log.String())
	}
	patchConst(p, 1001, k)
	_, _, xerr := bcl.Execute(p)
	verif.Observe("exec-err", xerr != nil)
	if xerr != nil {
		verif.Reach("runtime-error")
	} else {
		verif.Reach("executed")
	}
}

// C06_Tokens: sequences of two vocabulary tokens after `print 1 ` and inside a
// block (keywords and operators in operand and operator positions).
func C06_Tokens() {
	ctx := verif.Choice("context", 3)
	pre := []string{"print 1 ", "def b { x = 1 ", "var a = 1\neval a "}[ctx]
	suf := []string{"", " }", ""}[ctx]
	src := pre
	for i := 0; i < 2; i++ {
		src += c17Vocabulary[verif.Choice("slot", len(c17Vocabulary))] + " "
	}
	c06Run([]byte(src+suf), false)
}

// C06_Diagnostics: ParseFile of faulty multi-line input arriving in small
// reads, on every schedule within the preemption bound (lock operations of
// the line table are preemption points): the parser formats positions while
// the lexer records line feeds; the call must come back with an error on
// each schedule (a deadlock ends the path as a violation).
func C06_Diagnostics() {
	src := []string{"eval )\neval )\n", "a = \n= 2\n", "def {\n\"\n"}[verif.Choice("src", 3)]
	chunks := []int{4, 7}
	if verif.Tier() == 1 {
		chunks = []int{4, 7, 2}
	}
	chunk := chunks[verif.Choice("chunk", len(chunks))]
	var script []symio.Step
	for i := 0; i*chunk < len(src); i++ {
		script = append(script, symio.Step{N: chunk})
	}
	f := &symio.File{Data: []byte(src), Script: script, FileName: "f"}
	out, log := &symio.Writer{}, &symio.Writer{}
	_, err := bcl.ParseFile(f, bcl.OptOutput(out), bcl.OptLogger(log))
	verif.Assert(err != nil, "syntax errors reported")
	verif.Reach("returned")
}

// C06_BindForms: every selector x target spelling of bind (valid or not) with
// zero, one and two blocks of the bound type, at toplevel or inside a block:
// a result or an error, never a panic.
func C06_BindForms() {
	n := verif.Choice("blocks", 3)
	src := "def other {\n}\n"
	for i := 0; i < n; i++ {
		src += "def t \"n" + itoa(i) + "\" {\n f = " + itoa(i) + "\n}\n"
	}
	b := c04Binds[verif.Choice("bind", len(c04Binds))]
	if verif.Choice("inside", 2) == 1 {
		src += "def w {\n " + b + "\n}\n"
	} else {
		src += b + "\n"
	}
	if verif.Choice("again", 2) == 1 {
		src += b + "\n"
	}
	c06Run([]byte(src), false)
}

type C06Target struct {
	Name  string
	A     int
	MaxA  int `bcl:"m_x"`
	Inner struct{ X int }
}

// C06_UnmarshalNames: Unmarshal of a program whose block type, field and
// nested block names are 1..3 symbolic identifier bytes (letters of both
// cases, digit, underscore): a result or an error, never a panic.
func C06_UnmarshalNames() {
	n := 1 + verif.Choice("len", 2+verif.Tier())
	id := verif.Bytes("id", n)
	for i, c := range id {
		verif.Assume(c == '_' || c == 'a' || c == 'A' || c == 'x' || (i > 0 && c == '1'))
	}
	name := string(id)
	var src string
	switch verif.Choice("where", 4) {
	case 0: // field name
		src = "def c06target \"n\" {\n " + name + " = 1\n}\nbind c06target -> struct\n"
	case 1: // nested block type
		src = "def c06target \"n\" {\n def " + name + " {\n x = 1\n }\n}\nbind c06target -> struct\n"
	case 2: // block type itself
		src = "def " + name + " \"n\" {\n a = 1\n}\nbind " + name + " -> struct\n"
	case 3: // nested block name
		src = "def c06target \"n\" {\n def inner \"" + name + "\" {\n x = 1\n }\n}\nbind c06target -> struct\n"
	}
	var t C06Target
	out, log := &symio.Writer{}, &symio.Writer{}
	err := bcl.Unmarshal([]byte(src), &t, bcl.OptOutput(out), bcl.OptLogger(log))
	verif.Observe("err", err != nil)
	if err != nil {
		verif.Reach("error")
	} else {
		verif.Reach("bound")
	}
}
