package props

import (
	"github.com/wkhere/bcl"

	"verifharness/verif"
)

type c15Iface interface{ M() }

type Emb struct {
	Name  string
	Count int
}

type TEmbed struct {
	Emb
	Extra int
}

type TOdd struct {
	Name    string
	hidden  int
	Ptr     *int
	Any     any
	Arr     [2]int
	Map     map[string]int
	Slice   []int
	Count   int
	Sub     *Inner
	NotStr  int
	Float   float64
	Text    string
	Flag    bool
	Nested  Inner
	Iface   c15Iface
	private Inner
}

// c15Value returns a field value of the k-th kind: int, float, string, bool,
// nil, nested block.
func c15Value(name string, k int) any {
	switch k {
	case 0:
		return verif.Int(name)
	case 1:
		return verif.Float64(name)
	case 2:
		return verif.String(name, 1)
	case 3:
		return verif.Bool(name)
	case 4:
		return nil
	}
	return bcl.Block{Type: "inner", Name: "", Fields: map[string]any{"x": verif.Int(name + "x")}}
}

var c15Keys = []string{"count", "hidden", "ptr", "any", "arr", "map", "slice", "sub", "not_str", "float", "text", "flag", "nested", "iface", "private", "nosuch", "extra"}

// C15_Targets: every kind of value under every key against the odd struct,
// the embedding struct and non-struct targets: Bind returns nil or an error,
// never panics; nil only if the value was stored unchanged in an exported,
// assignable field.
func C15_Targets() {
	key := c15Keys[verif.Choice("key", len(c15Keys))]
	kind := verif.Choice("kind", 6)
	val := c15Value("v", kind)
	named := verif.Choice("named", 2) == 1
	blk := bcl.Block{Type: "todd", Fields: map[string]any{key: val}}
	if named {
		blk.Name = "nm"
	}
	switch verif.Choice("target", 8) {
	case 0:
		var t TOdd
		err := bcl.Bind(&t, bcl.StructBinding{Value: blk})
		verif.Observe("err", err != nil)
		if err == nil {
			verif.Reach("bound")
			if named {
				verif.Assert(t.Name == "nm", "name stored")
			}
			// the value must be found unchanged in the field the key designates
			ok := false
			switch key {
			case "count":
				x, is := val.(int)
				ok = is && t.Count == x
			case "not_str":
				x, is := val.(int)
				ok = is && t.NotStr == x
			case "float":
				x, is := val.(float64)
				ok = is && sameFloat(t.Float, x)
			case "text":
				x, is := val.(string)
				ok = is && t.Text == x
			case "flag":
				x, is := val.(bool)
				ok = is && t.Flag == x
			case "any":
				ok = kind != 4 && kind != 5 && sameValue(t.Any, val)
			case "nested":
				b, is := val.(bcl.Block)
				ok = is && t.Nested.X == b.Fields["x"]
			}
			verif.Assert(ok, "nil error only if the value is stored unchanged in an exported assignable field")
		} else {
			verif.Reach("error")
		}
	case 1:
		blk.Type = "tembed"
		var t TEmbed
		err := bcl.Bind(&t, bcl.StructBinding{Value: blk})
		verif.Observe("err", err != nil)
		if err == nil {
			ok := false
			switch key {
			case "count":
				x, is := val.(int)
				ok = is && t.Count == x
			case "extra":
				x, is := val.(int)
				ok = is && t.Extra == x
			}
			if named {
				ok = ok && t.Name == "nm"
			}
			verif.Assert(ok, "embedded: nil error only if the value reached the promoted field")
			verif.Reach("bound")
		} else {
			verif.Reach("error")
		}
	case 2:
		err := bcl.Bind(nil, bcl.StructBinding{Value: blk})
		verif.Assert(err != nil, "nil target is an error")
	case 3:
		var t TOdd
		err := bcl.Bind(t, bcl.StructBinding{Value: blk})
		verif.Assert(err != nil, "non-pointer target is an error")
	case 4:
		var p *TOdd
		err := bcl.Bind(p, bcl.StructBinding{Value: blk})
		verif.Assert(err != nil, "nil pointer target is an error")
	case 5:
		var x int
		var m map[string]int
		var s []int
		verif.Assert(bcl.Bind(&x, bcl.StructBinding{Value: blk}) != nil, "pointer to int is an error")
		verif.Assert(bcl.Bind(&m, bcl.StructBinding{Value: blk}) != nil, "pointer to map is an error")
		verif.Assert(bcl.Bind(&s, bcl.StructBinding{Value: blk}) != nil, "pointer to []int is an error for a struct binding")
		verif.Assert(bcl.Bind(&s, bcl.SliceBinding{Value: []bcl.Block{blk}}) != nil, "slice of non-structs is an error")
		var t TOdd
		verif.Assert(bcl.Bind(&t, bcl.SliceBinding{Value: []bcl.Block{blk}}) != nil, "struct target for a slice binding is an error")
		var ts []TOdd
		verif.Assert(bcl.Bind(&ts, bcl.StructBinding{Value: blk}) != nil, "slice target for a struct binding is an error")
	case 6:
		var t TOdd
		verif.Assert(bcl.Bind(&t, nil) != nil, "nil binding is an error")
	default:
		// slice target keeps its previous contents on error
		// spare capacity, so an implementation that reuses the target's storage
		// would be seen
		ts := make([]TOdd, 2, 4)
		ts[0] = TOdd{Name: "keep", Count: 7}
		ts[1] = TOdd{Name: "keep2", Count: 8, Text: "t"}
		good := bcl.Block{Type: "todd", Fields: map[string]any{"count": 1}}
		err := bcl.Bind(&ts, bcl.SliceBinding{Value: []bcl.Block{good, blk}})
		if err != nil {
			verif.Assert(len(ts) == 2 && ts[0].Name == "keep" && ts[0].Count == 7 && ts[1].Name == "keep2" && ts[1].Count == 8 && ts[1].Text == "t", "on error a slice target keeps its previous contents")
			verif.Reach("error")
		} else {
			verif.Assert(len(ts) == 2, "slice bound")
			verif.Reach("bound")
		}
	}
	verif.Reach("returned")
}

// C15_Preloaded: a target that already holds values: zero values from the
// block must overwrite them; an empty slice binding still validates its
// target.
type TKey struct {
	Port1   int
	MaxConn int
}

func C15_Preloaded() {
	switch verif.Choice("case", 8) {
	case 6: // a key differing from the field name in one arbitrary byte
		b := verif.Byte("b")
		var t TKey
		err := bcl.Bind(&t, bcl.StructBinding{Value: bcl.Block{Type: "tkey", Fields: map[string]any{"port" + string([]byte{b}): 5}}})
		verif.Assert((err == nil) == (b == '1'), "key port? binds field Port1 only as port1")
		verif.Assert(err != nil || t.Port1 == 5, "the value is stored")
	case 7: // one arbitrary byte inside a key: only an underscore is ignored
		b := verif.Byte("b")
		var t TKey
		err := bcl.Bind(&t, bcl.StructBinding{Value: bcl.Block{Type: "tkey", Fields: map[string]any{"max" + string([]byte{b}) + "conn": 6}}})
		verif.Assert((err == nil) == (b == '_'), "key max?conn binds field MaxConn only as max_conn")
		verif.Assert(err != nil || t.MaxConn == 6, "the value is stored")
	case 3: // pointers to binding values are bindings too (the method set of
		// *StructBinding includes binding()): an error or nil, never a panic
		var t TOdd
		var ps *bcl.StructBinding
		var pl *bcl.SliceBinding
		verif.Assert(bcl.Bind(&t, ps) != nil, "a typed nil *StructBinding stores nothing, so it is an error")
		verif.Assert(bcl.Bind(&t, pl) != nil, "a typed nil *SliceBinding stores nothing, so it is an error")
		_ = bcl.Bind(&t, &bcl.StructBinding{Value: bcl.Block{Type: "todd"}})
		_ = bcl.Bind(&[]TOdd{}, &bcl.SliceBinding{})
	case 4: // two distinct struct types with the same name and different tags
		v, w := verif.Int("v"), verif.Int("w")
		verif.Assert(c15LocalA(v) == v, "first type binds its tagged field")
		verif.Assert(c15LocalB(w) == w, "second type (same name, other layout) binds its own tagged field")
		verif.Assert(c15LocalA(w) == w, "first type again")
	case 5: // a slice binding whose later block fails leaves the target alone,
		// also when the target has spare capacity
		ts := make([]TOdd, 2, 4)
		ts[0], ts[1] = TOdd{Name: "old0", Count: 1}, TOdd{Name: "old1", Count: 2}
		good := bcl.Block{Type: "todd", Name: "new", Fields: map[string]any{"count": verif.Int("v")}}
		bad := bcl.Block{Type: "todd", Name: "bad", Fields: map[string]any{"nosuch": 1}}
		var blocks []bcl.Block
		if verif.Choice("order", 2) == 0 {
			blocks = []bcl.Block{good, bad}
		} else {
			blocks = []bcl.Block{good, good, bad}
		}
		err := bcl.Bind(&ts, bcl.SliceBinding{Value: blocks})
		verif.Assert(err != nil, "the failing block is reported")
		verif.Assert(len(ts) == 2 && ts[0].Name == "old0" && ts[0].Count == 1 && ts[1].Name == "old1" && ts[1].Count == 2, "on error a slice target keeps its previous contents")
	case 0:
		t := TOdd{Count: 5, Text: "old", Flag: true, Float: 2.5}
		kind := verif.Choice("kind", 4)
		key := []string{"count", "float", "text", "flag"}[kind]
		var val any
		switch kind {
		case 0:
			val = verif.Int("v")
		case 1:
			val = verif.Float64("v")
		case 2:
			val = verif.String("v", verif.Choice("len", 2))
		default:
			val = verif.Bool("v")
		}
		err := bcl.Bind(&t, bcl.StructBinding{Value: bcl.Block{Type: "todd", Fields: map[string]any{key: val}}})
		verif.Assert(err == nil, "bind succeeds")
		ok := false
		switch kind {
		case 0:
			ok = t.Count == val.(int)
		case 1:
			ok = sameFloat(t.Float, val.(float64))
		case 2:
			ok = t.Text == val.(string)
		default:
			ok = t.Flag == val.(bool)
		}
		verif.Assert(ok, "the value (zero included) replaces what the target held")
	case 1:
		empty := bcl.SliceBinding{Value: []bcl.Block{}}
		var x int
		var s []int
		var p *[]TOdd
		verif.Assert(bcl.Bind(nil, empty) != nil, "nil target rejected for an empty slice binding")
		verif.Assert(bcl.Bind(x, empty) != nil, "non-pointer target rejected for an empty slice binding")
		verif.Assert(bcl.Bind(&x, empty) != nil, "pointer to int rejected for an empty slice binding")
		verif.Assert(bcl.Bind(&s, empty) != nil, "slice of non-structs rejected for an empty slice binding")
		verif.Assert(bcl.Bind(p, empty) != nil, "nil pointer rejected for an empty slice binding")
	default:
		ts := []TOdd{{Name: "old"}}
		err := bcl.Bind(&ts, bcl.SliceBinding{Value: []bcl.Block{}})
		verif.Assert(err == nil && len(ts) == 0, "an empty slice binding empties the target")
	}
	verif.Reach("returned")
}

func c15LocalA(v int) int {
	type T struct {
		A int `bcl:"k"`
		B int
	}
	var t T
	if err := bcl.Bind(&t, bcl.StructBinding{Value: bcl.Block{Type: "t", Fields: map[string]any{"k": v}}}); err != nil {
		return -1
	}
	if t.B != 0 {
		return -2
	}
	return t.A
}

func c15LocalB(v int) int {
	type T struct {
		B int
		A int `bcl:"k"`
	}
	var t T
	if err := bcl.Bind(&t, bcl.StructBinding{Value: bcl.Block{Type: "t", Fields: map[string]any{"k": v}}}); err != nil {
		return -1
	}
	if t.B != 0 {
		return -2
	}
	return t.A
}
