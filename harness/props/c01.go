package props

import (
	"verifharness/verif"
)

var c01BinOps = []string{"+", "-", "*", "/", "==", "!=", "<", "<=", ">", ">=", "and", "or"}

// c01Operand returns the placeholder spelling and the (symbolic) value of an
// operand of kind k: 0 int, 1 float, 2 string, 3 bool, 4 nil.
func c01Operand(name string, k int, slot int, values map[string]any) string {
	switch k {
	case 0:
		text := []string{"1001", "1002", "1003"}[slot]
		values[text] = verif.Int(name)
		return text
	case 1:
		text := []string{"1001.5", "1002.5", "1003.5"}[slot]
		values[text] = verif.Float64(name)
		return text
	case 2:
		text := []string{"\"s1\"", "\"s2\"", "\"s3\""}[slot]
		n := verif.Choice(name+"len", 3+verif.Tier())
		values[text] = verif.String(name, n)
		return text
	case 3:
		if verif.Choice(name+"bool", 2) == 1 {
			return "true"
		}
		return "false"
	}
	return "nil"
}

// C01_Cells: every binary operator on every pair of operand kinds, values
// symbolic, operands as literals, as variables and as fields.
func C01_Cells() {
	op := c01BinOps[verif.Choice("op", len(c01BinOps))]
	ka, kb := verif.Choice("ka", 5), verif.Choice("kb", 5)
	values := map[string]any{}
	a := c01Operand("a", ka, 0, values)
	b := c01Operand("b", kb, 1, values)
	if op == "*" && ka == 2 && kb == 0 {
		n := values[b].(int)
		verif.Assume(n >= 0 && n <= 3)
	}
	var src string
	switch verif.Choice("route", 3) {
	case 0:
		src = "print " + a + " " + op + " " + b + "\n"
	case 1:
		src = "var v = " + a + "\nvar w = " + b + "\nprint v " + op + " w\n"
	default:
		src = "def blk {\n f = " + a + "\n g = f " + op + " " + b + "\n print g\n}\n"
	}
	r := runBoth(src, values)
	verif.Observe("out", r.Real.Out)
	verif.Observe("err", errClass(r.Real.Err))
	r.assertAgree("cell")
	verif.Reach("compared")
}

// C01_Unary: sign and not on every kind, nested and parenthesised.
func C01_Unary() {
	forms := []string{"-%", "+%", "not %", "- -%", "not not %", "-(%)", "+ -%", "not (-%)", "not %  == %2", "-% + %2"}
	f := forms[verif.Choice("form", len(forms))]
	k := verif.Choice("kind", 5)
	values := map[string]any{}
	a := c01Operand("a", k, 0, values)
	b := ""
	if containsStr(f, "%2") {
		b = c01Operand("b", 0, 1, values)
	}
	src := "print "
	for i := 0; i < len(f); i++ {
		switch {
		case f[i] == '%' && i+1 < len(f) && f[i+1] == '2':
			src += b
			i++
		case f[i] == '%':
			src += a
		default:
			src += string(f[i])
		}
	}
	r := runBoth(src+"\n", values)
	verif.Observe("out", r.Real.Out)
	r.assertAgree("unary")
	verif.Reach("compared")
}

// C01_Precedence: all ordered pairs of binary operators in a op1 b op2 c with
// symbolic int leaves: grouping per the documented precedence and left to
// right evaluation.
func C01_Precedence() {
	op1 := c01BinOps[verif.Choice("op1", len(c01BinOps))]
	op2 := c01BinOps[verif.Choice("op2", len(c01BinOps))]
	values := map[string]any{}
	a := c01Operand("a", 0, 0, values)
	b := c01Operand("b", 0, 1, values)
	c := c01Operand("c", 0, 2, values)
	pre := []string{"", "-", "not "}[verif.Choice("prefix", 3)]
	src := "print " + pre + a + " " + op1 + " " + b + " " + op2 + " " + c + "\n"
	r := runBoth(src, values)
	verif.Observe("out", r.Real.Out)
	verif.Observe("err", errClass(r.Real.Err))
	r.assertAgree("precedence")
	verif.Reach("compared")
}

// C01_ShortCircuit: assignments inside operands make evaluation order and
// skipping observable.
func C01_ShortCircuit() {
	shapes := []string{
		"var x = 0\nprint (x = 1001) and (x = 1002)\nprint x\n",
		"var x = 0\nprint (x = 1001) or (x = 1002)\nprint x\n",
		"var x = 0\nprint (x = 1001) and (x = 1002) or (x = 1003)\nprint x\n",
		"var x = 0\nprint (x = 1001) or (x = 1002) and (x = 1003)\nprint x\n",
		"var x = 0\nprint not (x = 1001) and (x = 1002)\nprint x\n",
		"var x = 0\nprint (x = 1001) + (x = 1002) * x\nprint x\n",
		"var x = 0\nvar y = (x = 1001) and (x = x + 1002)\nprint x\nprint y\n",
		"def b {\n f = 1001\n g = (f = 1002) or (f = 1003)\n h = f\n}\n",
		"var x = 1001\nprint x + (x = 1002) + x\n",
		"var x = 0\nprint 1001 == (x = 1002) and x\nprint x\n",
	}
	src := shapes[verif.Choice("shape", len(shapes))]
	values := map[string]any{}
	values["1001"] = verif.Int("a")
	values["1002"] = verif.Int("b")
	if containsStr(src, "1003") {
		values["1003"] = verif.Int("c")
	}
	r := runBoth(src, values)
	verif.Observe("out", r.Real.Out)
	r.assertAgree("short-circuit")
	verif.Reach("compared")
}

func containsStr(s, sub string) bool {
	for i := 0; i+len(sub) <= len(s); i++ {
		if s[i:i+len(sub)] == sub {
			return true
		}
	}
	return false
}

// C01_IntSpellings: integer literals with symbolic digits through the real
// lexer and literal conversion: decimal, leading-zero octal, hex.
func C01_IntSpellings() {
	var text string
	switch verif.Choice("form", 3) {
	case 0: // decimal / octal by leading zero, 1..3 digits
		n := 1 + verif.Choice("digits", 3+2*verif.Tier())
		d := verif.Bytes("d", n)
		for _, c := range d {
			verif.Assume(c >= '0' && c <= '9')
		}
		text = string(d)
	case 1: // hex
		n := 1 + verif.Choice("digits", 2+2*verif.Tier())
		d := verif.Bytes("d", n)
		for _, c := range d {
			verif.Assume(c >= '0' && c <= '9' || c >= 'a' && c <= 'f' || c >= 'A' && c <= 'F')
		}
		x := verif.Byte("x")
		verif.Assume(x == 'x' || x == 'X')
		text = "0" + string([]byte{x}) + string(d)
	default: // in an arithmetic context
		d := verif.Bytes("d", 2)
		for _, c := range d {
			verif.Assume(c >= '0' && c <= '9')
		}
		text = string(d) + " + 1"
	}
	r := runBoth("print "+text+"\n", nil)
	verif.Observe("out", r.Real.Out)
	verif.Observe("rejected", r.ParseErr != nil)
	r.assertAgree("spelling")
	verif.Reach("compared")
}

// C01_Literals: concrete spellings of floats and escaped strings.
func C01_Literals() {
	lits := []string{
		"0", "1", "00", "01", "017", "0x0", "0x1", "0XfF", "9223372036854775807",
		"1.5", "0.0", "1e3", "1E-3", "2.5e+10", "0e0", "1.0e308", "4.9e-324",
		"\"\"", "\"a b\"", "\"\\n\\t\\\\\\\"\"", "\"\\x41\\101\\u00e9\"", "\"# ; ( )\"",
		"true", "false", "nil",
	}
	l := lits[verif.Choice("lit", len(lits))]
	var src string
	switch verif.Choice("use", 3) {
	case 0:
		src = "print " + l + "\n"
	case 1:
		src = "var v = " + l + "\nprint v == " + l + "\nprint not v\n"
	default:
		src = "def b { f = " + l + " }\n"
	}
	r := runBoth(src, nil)
	verif.Observe("out", r.Real.Out)
	r.assertAgree("literal")
	verif.Reach("compared")
}

// C01_Three: three binary operators, one representative per precedence level
// (or, and, ==, <, +, *, plus - and / for associativity), symbolic int leaves.
func C01_Three() {
	reps := []string{"or", "and", "==", "<", "+", "*", "-", "/"}
	if verif.Tier() == 1 {
		reps = c01BinOps // all twelve
	}
	op1 := reps[verif.Choice("op1", len(reps))]
	op2 := reps[verif.Choice("op2", len(reps))]
	op3 := reps[verif.Choice("op3", len(reps))]
	values := map[string]any{}
	a := c01Operand("a", 0, 0, values)
	b := c01Operand("b", 0, 1, values)
	c := c01Operand("c", 0, 2, values)
	values["1004"] = verif.Int("d")
	src := "print " + a + " " + op1 + " " + b + " " + op2 + " " + c + " " + op3 + " 1004\n"
	r := runBoth(src, values)
	verif.Observe("out", r.Real.Out)
	verif.Observe("err", errClass(r.Real.Err))
	r.assertAgree("three")
	verif.Reach("compared")
}

// C01_Forms: signs, parentheses and mixed kinds in positions the cell and
// precedence harnesses do not produce.
func C01_Forms() {
	forms := []string{
		"- A * B", "-(A + B)", "A - - B", "A - (B - C)", "A / (B * C)", "(A) * (B)", "not (A and B)", "not A or not B",
		"- A == B", "A < B == true", "A + B < C", "A * B + C * A", "A + B * C - A / B", "\"x\" + A * B", "\"x\" * 2 + A",
		"A == B or A < B and B < C", "not A == B", "A and B or C", "A or B and C", "(A or B) and C", "+ A - + B",
		"\"a\" < \"b\" == (A < B)", "nil == (A and nil)", "A != B != true", "A >= B == not (A < B)", "A <= B == not (A > B)",
	}
	f := forms[verif.Choice("form", len(forms))]
	values := map[string]any{}
	names := map[byte]string{'A': "1001", 'B': "1002", 'C': "1003"}
	src := "print "
	for i := 0; i < len(f); i++ {
		if t, ok := names[f[i]]; ok {
			if _, seen := values[t]; !seen {
				values[t] = verif.Int("k" + t)
			}
			src += t
		} else {
			src += string(f[i])
		}
	}
	r := runBoth(src+"\n", values)
	verif.Observe("out", r.Real.Out)
	verif.Observe("err", errClass(r.Real.Err))
	r.assertAgree("forms")
	verif.Reach("compared")
}

// C01_StringLits: string literals of three bytes over an alphabet with
// backslash, quote, letters that form escapes, digits and space: the real
// lexer and literal conversion against the reference tokenizer and the Go
// string syntax.
func C01_StringLits() {
	b := verif.Bytes("s", 3)
	for _, c := range b {
		verif.Assume(c == '\\' || c == '"' || c == 'n' || c == 'x' || c == '4' || c == '1' || c == ' ' || c == 'q')
	}
	src := "print \"" + string(b) + "\"\n"
	r := runBoth(src, nil)
	verif.Observe("rejected", r.ParseErr != nil)
	verif.Observe("out", r.Real.Out)
	r.assertAgree("string literal")
	if r.ParseErr != nil {
		verif.Reach("rejected")
	} else {
		verif.Reach("accepted")
	}
}

// C01_FloatText: CONCRETE INSTANCES - the decimal rendering of floats (print
// and the number-to-string coercion on the right of '+'), which the symbolic
// cells treat as an opaque function of the number.
func C01_FloatText() {
	lits := []string{
		"1000000.0", "1e6", "999999.5", "1e-4", "0.00001", "1e-5", "1e20", "1e21", "1e22", "123456789.125",
		"0.1", "2.5e-10", "1.7976931348623157e308", "4.9e-324", "100000.0", "1e7", "0.000123", "12345678.0",
	}
	l := lits[verif.Choice("lit", len(lits))]
	var src string
	switch verif.Choice("use", 4) {
	case 0:
		src = "print " + l + "\n"
	case 1:
		src = "print \"v=\" + " + l + "\n"
	case 2:
		src = "print \"v=\" + (" + l + " * 2)\nprint " + l + " / 3\n"
	default:
		src = "def b {\n s = \"\" + " + l + "\n n = - " + l + "\n t = \"x\" + n\n}\n"
	}
	r := runBoth(src, nil)
	verif.Observe("out", r.Real.Out)
	r.assertAgree("float text")
	verif.Reach("compared")
}

// C01_Wide: expressions evaluated in programs that already hold 236..300
// variables and constants, so that the operands of the expression's own
// instructions (constant indices, local slots) cross the one-byte varint
// range; operand values symbolic.
func C01_Wide() {
	n := []int{236, 238, 239, 240, 241, 242, 250, 254, 255, 256, 300}[verif.Choice("n", 11)]
	src := ""
	for i := 0; i < n; i++ {
		src += "var v" + itoa(i) + " = " + itoa(i+2000) + "\n"
	}
	last := "v" + itoa(n-1)
	switch verif.Choice("shape", 4) {
	case 0:
		src += "print 1001 + 1002 * " + last + "\nprint -1001 < 1002\nprint " + last + " - 1002\n"
	case 1:
		src += "var w = 1001\nprint w * 1002 + v0\nprint not (w == 1002)\nprint w / 3\n"
	case 2:
		src += "print \"a\" + \"b\"\nprint 1001 == 1002 or " + last + " > 1001\nprint 1.5 + 1001\n"
	default:
		src += "def t {\n f = 1001 - 1002\n g = f * " + last + "\n var u = g + 1002\n h = u\n}\nprint 1001 and 1002\n"
	}
	r := runBoth(src, map[string]any{"1001": verif.Int("a"), "1002": verif.Int("b")})
	verif.Observe("err", errClass(r.Real.Err))
	r.assertAgree("wide")
	verif.Reach("compared")
}

// C01_LiteralOps: CONCRETE INSTANCES - every two-operator boolean expression
// over the literal operand alphabet (each literal kind has its own opcode or
// constant form), unparenthesised and with either operand pair parenthesised:
// short-circuit code generation must not depend on which instruction happens
// to end the left operand.
func C01_LiteralOps() {
	lits := []string{"true", "false", "nil", "0", "1", "\"\"", "\"s\"", "2", "0.0", "x", "z"}
	ops := []string{"and", "or"}
	if verif.Tier() == 0 {
		lits = []string{"true", "false", "nil", "0", "1", "\"\"", "2", "x"}
	}
	a := lits[verif.Choice("a", len(lits))]
	b := lits[verif.Choice("b", len(lits))]
	c := lits[verif.Choice("c", len(lits))]
	o1 := ops[verif.Choice("o1", 2)]
	o2 := ops[verif.Choice("o2", 2)]
	if verif.Tier() == 1 && verif.Choice("nota", 2) == 1 {
		a = "not " + a
	}
	var e string
	switch verif.Choice("paren", 3+verif.Tier()) {
	case 0:
		e = a + " " + o1 + " " + b + " " + o2 + " " + c
	case 1:
		e = "(" + a + " " + o1 + " " + b + ") " + o2 + " " + c
	case 2:
		e = a + " " + o1 + " (" + b + " " + o2 + " " + c + ")"
	case 3:
		e = "((" + a + ") " + o1 + " " + b + ") " + o2 + " (" + c + ")"
	}
	src := "var x = 7\nvar z = 0\nprint " + e + "\ndef t {\n f = " + e + "\n}\n"
	r := runBoth(src, nil)
	verif.Observe("out", r.Real.Out)
	r.assertAgree("literal-ops")
	verif.Reach("compared")
}

// C01_SlotOperands: the left operand is the variable in slot k-1 (symbolic int
// value) / the k-th constant, for every k in the range: the value of an
// expression must not depend on the slot or constant number of its operands.
func C01_SlotOperands() {
	max := 40
	if verif.Tier() == 1 {
		max = 300
	}
	k := 1 + verif.Choice("k", max)
	src := "var w = 3\n"
	for i := 1; i < k; i++ {
		src += "var v" + itoa(i) + " = " + itoa(5000+i) + "\n"
	}
	src += "var last = 1001\n"
	forms := []string{
		"last and 99999",
		"last or 99999",
		"not last",
		"last and (w = 4)",
		"last or (w = 4)",
		"88888 and last",
		"(w = 0) or last",
		"last == 0",
		"last < 1",
		"-last",
		"last + 1",
		"(last) and (last or 7)",
	}
	e := forms[verif.Choice("form", len(forms))]
	src += "print " + e + "\nprint w\ndef t {\n f = " + e + "\n g = w\n}\n"
	r := runBoth(src, map[string]any{"1001": verif.Int("a")})
	verif.Observe("out", r.Real.Out)
	r.assertAgree("slot-operands")
	verif.Reach("compared")
}

// C01_BigInts: CONCRETE INSTANCES - every binary operator on pairs of ints at
// the edges of exact float64 representation and of the int64 range (as
// literals and as variables): int operations stay in the ints.
func C01_BigInts() {
	vals := []string{
		"9007199254740992", "9007199254740993", "9007199254740994", "0x20000000000001",
		"9223372036854775807", "9223372036854775806", "4611686018427387905", "4611686018427387904",
		"(0-9007199254740993)", "(0-9223372036854775807)", "(0-9223372036854775806)", "1", "0",
	}
	a := vals[verif.Choice("a", len(vals))]
	b := vals[verif.Choice("b", len(vals))]
	op := c01BinOps[verif.Choice("op", len(c01BinOps))]
	var src string
	if verif.Choice("route", 2) == 0 {
		src = "print " + a + " " + op + " " + b + "\n"
	} else {
		src = "var v = " + a + "\ndef t {\n f = " + b + "\n g = v " + op + " f\n print g\n}\n"
	}
	r := runBoth(src, nil)
	verif.Observe("out", r.Real.Out)
	verif.Observe("err", errClass(r.Real.Err))
	r.assertAgree("bigints")
	verif.Reach("compared")
}
