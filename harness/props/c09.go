package props

import (
	"bytes"
	"io"
	"strings"

	"github.com/wkhere/bcl"

	"verifharness/symio"
	"verifharness/verif"
)

func blockEqual(a, b bcl.Block) bool {
	if a.Type != b.Type || a.Name != b.Name || len(a.Fields) != len(b.Fields) {
		return false
	}
	for k, av := range a.Fields {
		bv, ok := b.Fields[k]
		if !ok {
			return false
		}
		ab, aok := av.(bcl.Block)
		bb, bok := bv.(bcl.Block)
		if aok != bok {
			return false
		}
		if aok {
			if !blockEqual(ab, bb) {
				return false
			}
			continue
		}
		if af, ok := av.(float64); ok {
			bf, ok := bv.(float64)
			if !ok || !sameFloat(af, bf) {
				return false
			}
			continue
		}
		if av != bv {
			return false
		}
	}
	return true
}

func blocksEqual(a, b []bcl.Block) bool {
	if len(a) != len(b) {
		return false
	}
	for i := range a {
		if !blockEqual(a[i], b[i]) {
			return false
		}
	}
	return true
}

func bindingEqual(a, b bcl.Binding) bool {
	switch x := a.(type) {
	case nil:
		return b == nil
	case bcl.StructBinding:
		y, ok := b.(bcl.StructBinding)
		return ok && blockEqual(x.Value, y.Value)
	case bcl.SliceBinding:
		y, ok := b.(bcl.SliceBinding)
		return ok && blocksEqual(x.Value, y.Value)
	}
	return false
}

func errText(err error) string {
	if err == nil {
		return ""
	}
	return err.Error()
}

// c09Reader wraps dump bytes in one of the reader behaviours.
func c09Reader(dump []byte, mode int) io.Reader {
	switch mode {
	case 0:
		return bytes.NewReader(dump)
	case 1:
		return &symio.ChunkReader{Data: dump, Chunk: 1}
	case 2:
		return &symio.ChunkReader{Data: dump, Chunk: 3}
	default:
		// a split inside the first 16 bytes, then everything
		k := verif.Choice("split", 16) + 1
		return &symio.Reader{Data: dump, Sizes: []int{k}}
	}
}

// roundTrip dumps p, loads the bytes back through a reader of the given mode,
// dumps again and executes both programs; everything observable must agree.
func c09RoundTrip(p *bcl.Prog, name string, mode int) {
	var d1 bytes.Buffer
	err := p.Dump(&d1)
	verif.Assert(err == nil, "dump succeeds")
	out2, log2 := &symio.Writer{}, &symio.Writer{}
	p2, err := bcl.LoadProg(c09Reader(d1.Bytes(), mode), name, bcl.OptOutput(out2), bcl.OptLogger(log2), bcl.OptDisasm(true))
	verif.Assert(err == nil, "load of a complete dump succeeds")
	if err != nil {
		verif.Observe("loaderr", err)
		return
	}
	verif.Reach("loaded")
	dis2 := out2.String()
	out2.Buf = nil
	var d2 bytes.Buffer
	err = p2.Dump(&d2)
	verif.Assert(err == nil, "second dump succeeds")
	verif.Assert(bytes.Equal(d1.Bytes(), d2.Bytes()), "dump of the loaded program is byte-identical")
	b2, bind2, err2 := bcl.Execute(p2)
	// the original writes to its own writers (set at Parse time)
	b1, bind1, err1 := bcl.Execute(p)
	verif.Assert(errText(err1) == errText(err2), "same runtime error text")
	verif.Assert(blocksEqual(b1, b2), "same blocks")
	verif.Assert(bindingEqual(bind1, bind2), "same binding")
	verif.Observe("err", errText(err2))
	c09Last = c09Result{Out: out2.String(), Log: log2.String(), Disasm: dis2}
}

type c09Result struct{ Out, Log, Disasm string }

var c09Last c09Result

// c09Parse parses src with disassembly on and returns the program, its
// disassembly text and the writers its execution will use.
func c09Parse(src string, name string) (*bcl.Prog, string, *symio.Writer, *symio.Writer) {
	out, log := &symio.Writer{}, &symio.Writer{}
	p, err := bcl.Parse([]byte(src), name, bcl.OptOutput(out), bcl.OptLogger(log), bcl.OptDisasm(true))
	if err != nil {
		panic("c09: template rejected: " + log.String())
	}
	dis := out.String()
	out.Buf = nil
	return p, dis, out, log
}

func c09Finish(dis1 string, out1, log1 *symio.Writer) {
	verif.Assert(dis1 == c09Last.Disasm, "same disassembly")
	verif.Assert(out1.String() == c09Last.Out, "same printed output")
	verif.Assert(log1.String() == c09Last.Log, "same warnings")
	verif.Reach("compared")
}

// patchConst replaces the constant equal to the (concrete) placeholder by v.
// The index is found before anything symbolic is stored, so a symbolic value
// can never be mistaken for a later placeholder.
func patchConst(p *bcl.Prog, placeholder any, v any) {
	patchConsts(p, []any{placeholder}, []any{v})
}

func patchConsts(p *bcl.Prog, placeholders []any, vals []any) {
	consts := bcl.VerifConsts(p)
	// every occurrence of a placeholder is replaced (a literal used twice makes
	// two constants); all indices are resolved before anything is stored
	idx := make([][]int, len(placeholders))
	for k, ph := range placeholders {
		for i, c := range consts {
			if c == ph {
				idx[k] = append(idx[k], i)
			}
		}
		if len(idx[k]) == 0 {
			panic("placeholder constant not found")
		}
	}
	for k, is := range idx {
		for _, i := range is {
			bcl.VerifSetConst(p, i, vals[k])
		}
	}
}

var c09StrLens = [][]int{
	{0, 1, 94, 95, 96, 239, 240, 241, 242, 67823, 67824},
	{0, 1, 94, 95, 96, 239, 240, 241, 242, 2286, 2287, 2288, 2289, 4094, 4095, 4096, 4097, 4098, 67822, 67823, 67824, 67825},
}

// C09_Strings: string constants with symbolic contents at lengths crossing the
// varint size classes and the 4096-byte buffers; readers of four behaviours.
func C09_Strings() {
	lens := c09StrLens[verif.Tier()]
	n := lens[verif.Choice("len", len(lens))]
	mode := verif.Choice("reader", 4)
	ph := strings.Repeat("a", n)
	src := "var s = \"" + ph + "\"\nprint s\ndef blk \"nm\" { f = s; n = 12345; x = 2.5 }\nbind blk -> struct\nbind blk -> slice\nprint 1/0\n"
	p, dis, out, log := c09Parse(src, "prog")
	_ = dis
	var content string
	if n > 5000 {
		// CONCRETE INSTANCE: the 3->4 byte size class boundary
		content = strings.Repeat("z", n)
	} else {
		content = verif.String("content", n)
	}
	patchConst(p, ph, content)
	// disassembly of the patched program (the one Parse printed had the placeholder)
	verif.Observe("n", n)
	c09RoundTrip(p, "prog", mode)
	verif.Assert(out.String() == c09Last.Out, "same printed output")
	verif.Assert(log.String() == c09Last.Log, "same warnings")
	verif.Reach("compared")
}

// C09_Idents: identifiers (block types, field names) and program names of
// boundary lengths.
func C09_Idents() {
	lens := [][]int{
		{1, 94, 95, 96, 239, 240, 241, 242},
		{1, 94, 95, 96, 239, 240, 241, 242, 2286, 2287, 2288, 2289, 4094, 4095, 4096, 4097, 4098},
	}[verif.Tier()]
	n := lens[verif.Choice("len", len(lens))]
	mode := verif.Choice("reader", 3)
	id := strings.Repeat("k", n)
	src := "def " + id + " { " + id + "x = 1; y = " + id + "x }\nbind " + id + " -> struct\n"
	name := "prog"
	if verif.Choice("longname", 2) == 1 {
		name = strings.Repeat("n", n)
	}
	p, dis, out, log := c09Parse(src, name)
	c09RoundTrip(p, name, mode)
	c09Finish(dis, out, log)
}

// C09_Values: int constants of every bit pattern, float constants of every
// bit pattern, bool and nil constants through dump and load.
func C09_Values() {
	mode := verif.Choice("reader", 2)
	src := "print 1234567\nprint 2.5\ndef b { i = 1234567; f = 2.5; t = true; n = nil; z = 0; o = 1 }\nbind b -> struct\n"
	p, _, out, log := c09Parse(src, "prog")
	iv := verif.Int("int")
	fv := verif.Float64("float")
	consts := bcl.VerifConsts(p)
	for i, c := range consts {
		switch c.(type) {
		case int:
			bcl.VerifSetConst(p, i, iv)
		case float64:
			bcl.VerifSetConst(p, i, fv)
		}
	}
	c09RoundTrip(p, "prog", mode)
	verif.Assert(out.String() == c09Last.Out, "same printed output")
	verif.Assert(log.String() == c09Last.Log, "same warnings")
	verif.Reach("compared")
}

// C09_Positions: sources long enough that positions and the code size need
// two and three varint bytes; runtime error position must survive.
func C09_Positions() {
	pads := []int{200, 2400, 70000}
	if verif.Tier() == 0 {
		pads = pads[:2]
	}
	// source lengths that put the final line feed on a varint boundary
	pads = append(pads, 218, 219, 220, 2266, 2267, 2268)
	pad := pads[verif.Choice("pad", len(pads))]
	mode := verif.Choice("reader", 2)
	var sb strings.Builder
	sb.WriteString("var a = 3\n")
	for sb.Len() < pad {
		sb.WriteString("# padding line padding line padding line padding line\n")
	}
	sb.WriteString("print a\nprint a/0\n")
	p, dis, out, log := c09Parse(sb.String(), "prog")
	c09RoundTrip(p, "prog", mode)
	c09Finish(dis, out, log)
}

// C09_Tables: the position table and the line-feed table with arbitrary
// entries (every 63-bit value, so every varint size class and every first
// byte, including the entry that ends the dump) survive dump and load through
// each reader behaviour.
func C09_Tables() {
	npos := verif.Choice("npos", 2) + 1
	nlf := verif.Choice("nlf", 3)
	positions := make([]int, npos)
	for i := range positions {
		positions[i] = i
	}
	lfs := make([]int, nlf)
	for i := range lfs {
		lfs[i] = 10 * (i + 1)
	}
	x := verif.Int("x")
	verif.Assume(x >= 0)
	// the symbolic entry is the last one of either table (the last line feed
	// is the final byte sequence of the dump)
	if nlf == 0 || verif.Choice("where", 2) == 0 {
		positions[npos-1] = x
	} else {
		verif.Assume(x >= 10*nlf)
		lfs[nlf-1] = x
	}
	out, log := &symio.Writer{}, &symio.Writer{}
	p := bcl.VerifNewProg("prog", []byte{1}, nil, positions, lfs, out, log)
	var d1 bytes.Buffer
	err := p.Dump(&d1)
	verif.Assert(err == nil, "dump succeeds")
	mode := verif.Choice("reader", 3)
	out2, log2 := &symio.Writer{}, &symio.Writer{}
	p2, err := bcl.LoadProg(c09Reader(d1.Bytes(), mode), "prog", bcl.OptOutput(out2), bcl.OptLogger(log2))
	verif.Observe("loaderr", err)
	verif.Assert(err == nil, "load of a complete dump succeeds")
	if err != nil {
		return
	}
	verif.Reach("loaded")
	pos2, lfs2 := bcl.VerifPositions(p2), bcl.VerifLfs(p2)
	verif.Assert(len(pos2) == npos && len(lfs2) == nlf, "table sizes preserved")
	for i := range pos2 {
		verif.Assert(pos2[i] == positions[i], "position entry preserved")
	}
	for i := range lfs2 {
		verif.Assert(lfs2[i] == lfs[i], "line-feed entry preserved")
	}
	var d2 bytes.Buffer
	err = p2.Dump(&d2)
	verif.Assert(err == nil && bytes.Equal(d1.Bytes(), d2.Bytes()), "dump of the loaded program is byte-identical")
	verif.Reach("compared")
}

// C09_Names: the program name stored in the dump is the loaded program's
// name whatever name the caller passes to LoadProg (empty, one byte, across
// the one-byte varint boundary, beyond the 4096-byte buffer).
func C09_Names() {
	var name string
	switch verif.Choice("name", 5) {
	case 0:
		name = ""
	case 1:
		name = verif.String("n", 1)
	case 2:
		name = verif.String("n", 2)
	case 3:
		name = strings.Repeat("n", 240) + verif.String("n", 1)
	default:
		name = strings.Repeat("dir/", 1100) + "x.bcl"
	}
	loadName := []string{"", "other", name}[verif.Choice("loadname", 3)]
	mode := verif.Choice("reader", 2)
	p, dis, out, log := c09Parse("var a = 1\nprint a\nprint a/0\n", name)
	c09RoundTrip(p, loadName, mode)
	c09Finish(dis, out, log)
}

// C09_Reload: Load into a Prog that already holds another program replaces
// every part of it (code, constants, positions, line table).
func C09_Reload() {
	srcs := []string{
		"print 1\n\n\n\nprint 2/0\n",
		"var a = \"s\"\nprint a\ndef t {\n f = a\n}\nbind t -> struct\nbind t -> struct\n",
		"print 3\n",
	}
	i, j := verif.Choice("first", 3), verif.Choice("second", 3)
	mode := verif.Choice("reader", 2)
	pa, _, _, _ := c09Parse(srcs[i], "a")
	pb, disB, outB, logB := c09Parse(srcs[j], "b")
	var db bytes.Buffer
	verif.Assert(pb.Dump(&db) == nil, "dump succeeds")
	// pa keeps its own writers; Load must replace its program by pb's
	err := pa.Load(c09Reader(db.Bytes(), mode))
	verif.Assert(err == nil, "load succeeds")
	if err != nil {
		return
	}
	verif.Reach("loaded")
	var da bytes.Buffer
	verif.Assert(pa.Dump(&da) == nil && bytes.Equal(da.Bytes(), db.Bytes()), "dump of the reloaded program is byte-identical")
	_ = disB
	b1, bind1, err1 := bcl.Execute(pb)
	b2, bind2, err2 := bcl.Execute(pa)
	verif.Assert(errText(err1) == errText(err2), "same runtime error text and position")
	verif.Assert(blocksEqual(b1, b2) && bindingEqual(bind1, bind2), "same blocks and binding")
	_, _ = outB, logB
	verif.Reach("compared")
}
