package props

import (
	"strings"

	"github.com/wkhere/bcl"

	"verifharness/refbcl"
	"verifharness/verif"
)

func Dbg_Bind() {
	a := &asm{}
	a.op(refbcl.OpDEFBLOCK).uv(0).uv(1)
	a.op(refbcl.OpCONST).uv(3).op(refbcl.OpSETFIELD).uv(2).op(refbcl.OpPOP).op(refbcl.OpENDBLOCK)
	a.op(refbcl.OpDEFBLOCK).uv(6).uv(1).op(refbcl.OpENDBLOCK)
	opt := verif.Byte("bindopt")
	a.op(refbcl.OpBIND).uv(0).raw(opt).op(refbcl.OpRET)
	d := a.dump("t", "", "f", verif.Int("v0"), verif.Int("v1"), verif.Int("v2"), "other")
	rr, err := loadAndRun(d)
	verif.Assert(err == nil, "hand-assembled dump loads")
	if err != nil {
		return
	}
	verif.Reach("ran")
	_ = rr
}

func Dbg_Bytes1() {
	payload := verif.Bytes("payload", 2)
	src := []byte("print ")
	src = append(src, payload...)
	c06Run(src, false)
}

func Dbg_Bytes8() {
	payload := verif.Bytes("payload", 2)
	src := []byte("print 1e9")
	src = append(src, payload...)
	c06Run(src, false)
}

func Dbg_C19() {
	src := c19Programs[1]
	k, k2 := verif.Int("k"), verif.Int("k2")
	values := map[string]any{"1001": k, "1002": k2}
	base := c19Do(src, values)
	with := c19Do(src, values, bcl.OptTrace(true))
	bp, _, _ := c19Split(base.ExecOut)
	wp, _, _ := c19Split(with.ExecOut)
	verif.Observe("base", strings.Join(bp, "|"))
	verif.Observe("with", strings.Join(wp, "|"))
	verif.Observe("raw", with.ExecOut)
}
