package props

import (
	"fmt"
	"strings"

	"github.com/wkhere/bcl"

	"verifharness/symio"
	"verifharness/verif"
)

const c18Usage = "usage: bcl [-d|--disasm] [-t|--trace] [-r|--result] [-s|--stats] [--bdump|--bdump=BFILE] [--bload|--bload=BFILE] [FILE|-]"

// refArgs is the reference reading of the documented command line.
type refArgs struct {
	d, t, r, s   bool
	bdump, bload bool
	bdumpFile    string
	bloadFile    string
	file         string
	help         bool
	usageErr     bool
}

func refParseArgs(args []string) refArgs {
	var a refArgs
	var rest []string
	flag := func(c byte) bool {
		switch c {
		case 'd':
			a.d = true
		case 't':
			a.t = true
		case 'r':
			a.r = true
		case 's':
			a.s = true
		default:
			return false
		}
		return true
	}
	for i := 0; i < len(args); i++ {
		x := args[i]
		switch {
		case x == "-h":
			a.help = true
			return a
		case x == "--disasm":
			a.d = true
		case x == "--trace":
			a.t = true
		case x == "--result":
			a.r = true
		case x == "--stats":
			a.s = true
		case x == "--bdump":
			a.bdump = true
		case strings.HasPrefix(x, "--bdump="):
			a.bdump, a.bdumpFile = true, x[len("--bdump="):]
		case x == "--bload":
			a.bload = true
		case strings.HasPrefix(x, "--bload="):
			a.bload, a.bloadFile = true, x[len("--bload="):]
		case x == "--":
			rest = append(rest, args[i+1:]...)
			i = len(args)
		case x == "-" || len(x) == 0 || x[0] != '-':
			rest = append(rest, x)
		case len(x) >= 2 && x[1] != '-':
			// a cluster of single-letter flags; -h inside a cluster shows help
			for k := 1; k < len(x); k++ {
				if x[k] == 'h' {
					a.help = true
					return a
				}
				if !flag(x[k]) {
					a.usageErr = true
					return a
				}
			}
		default:
			a.usageErr = true
			return a
		}
	}
	switch len(rest) {
	case 0:
	case 1:
		a.file = rest[0]
	default:
		a.usageErr = true
		return a
	}
	if a.bdump && a.bdumpFile == "" {
		if !strings.HasSuffix(a.file, ".bcl") {
			a.usageErr = true
			return a
		}
		a.bdumpFile = a.file[:len(a.file)-4] + ".bcb"
	}
	if a.bload {
		switch {
		case a.file != "" && a.bloadFile != "":
			a.usageErr = true
			return a
		case a.file == "" && a.bloadFile != "":
			a.file = a.bloadFile
		}
	}
	if a.file == "" {
		a.file = "-"
	}
	return a
}

// c18Library computes what the library prints for a source with the options
// the flags stand for, the way the tool is documented to use it.
func c18Library(src string, name string, a refArgs) (stdout string, failed bool, errText string) {
	w, log := &symio.Writer{}, &symio.Writer{}
	f := &symio.File{Data: []byte(src), FileName: name}
	var p *bcl.Prog
	var err error
	if a.bload {
		// the input is taken for a bytecode file
		p, err = bcl.LoadProg(f, name, bcl.OptOutput(w), bcl.OptLogger(log), bcl.OptDisasm(a.d))
	} else {
		p, err = bcl.ParseFile(f, bcl.OptOutput(w), bcl.OptLogger(log), bcl.OptDisasm(a.d), bcl.OptStats(a.s))
	}
	if err != nil {
		return w.String(), true, log.String() + err.Error() + "\n"
	}
	res, binding, err := bcl.Execute(p, bcl.OptOutput(w), bcl.OptLogger(log), bcl.OptTrace(a.t), bcl.OptStats(a.s))
	_ = res
	_ = binding
	if err != nil {
		return w.String(), true, log.String() + err.Error() + "\n"
	}
	return w.String(), false, log.String()
}

var c18Flags = []string{"-d", "--disasm", "-t", "--trace", "-s", "--stats", "-dt", "-ts", "-sd", "-x", "--nope", "-d-", "-dts", "--", "--bload", "--bdump=x.bcb", "--bdumpx", "-dx"}

// C18_Run: the tool prints what the library prints and exits 0 / 1 / 2.
func C18_Run() {
	d := verif.Byte("digit")
	verif.Assume(d >= '0' && d <= '9')
	progs := []string{
		"var x = 4\nprint 8 / " + string([]byte{d}) + "\nprint \"ok\"\n",
		"print 1 +\n",
		"def t {\n f = 1" + string([]byte{d}) + "\n}\nbind t -> struct\nprint \"done\"\n",
	}
	src := progs[verif.Choice("prog", len(progs))]
	var args []string
	if k := verif.Choice("flag", len(c18Flags)+1); k < len(c18Flags) {
		args = append(args, c18Flags[k])
	}
	if verif.Tier() == 1 {
		// thorough: every pair of flags
		if k := verif.Choice("flag2", len(c18Flags)+1); k < len(c18Flags) {
			args = append(args, c18Flags[k])
		}
	}
	how := verif.Choice("input", 4)
	name := "p.bcl"
	var names, contents []string
	stdin := ""
	switch how {
	case 0: // FILE
		args = append(args, "p.bcl")
		names, contents = []string{"p.bcl"}, []string{src}
	case 1: // flag after FILE
		args = append([]string{"p.bcl"}, args...)
		names, contents = []string{"p.bcl"}, []string{src}
	case 2: // stdin via '-'
		args = append(args, "-")
		stdin, name = src, "/dev/stdin"
	default: // omitted: stdin
		stdin, name = src, "/dev/stdin"
	}
	status, stdout, stderr, _, _ := verif.RunCmd(args, stdin, names, contents)
	verif.Observe("status", status)
	ref := refParseArgs(args)
	if ref.usageErr {
		verif.Reach("usage-error")
		verif.Assert(status == 2, "a usage error exits with status 2")
		verif.Assert(len(stderr) > 0 && stdout == "", "usage errors go to standard error")
		return
	}
	verif.Assert(status != 2, "status 2 only for usage errors")
	// which input the command line really names (after "--" anything is a
	// file name, e.g. "-t")
	switch {
	case ref.file == "-":
		if stdin == "" {
			src = ""
		}
		name = "/dev/stdin"
	case len(names) > 0 && ref.file == names[0]:
		name = ref.file
	default:
		verif.Reach("no-such-file")
		verif.Assert(status == 1 && stdout == "" && len(stderr) > 0, "a missing file is an I/O error: status 1, message on standard error")
		return
	}
	want, failed, errText := c18Library(src, name, ref)
	if failed {
		verif.Reach("run-error")
		verif.Assert(status == 1, "parse and runtime errors exit with status 1")
		verif.Assert(stderr == errText, "diagnostics and the error are on standard error")
	} else {
		verif.Reach("success")
		verif.Assert(status == 0, "success exits with status 0")
		verif.Assert(stderr == errText, "nothing but warnings on standard error")
	}
	verif.Assert(stdout == want, "standard output is exactly what the library prints")
}

// C18_Order: flags in any order, before or after the file, or clustered.
func C18_Order() {
	base := [][]string{
		{"-d", "-t", "p.bcl"},
		{"-s", "--trace", "p.bcl"},
		{"--disasm", "p.bcl", "-s"},
		{"-r", "p.bcl"},
		{"-d", "-t", "-s", "p.bcl"},
		{"-d", "-t", "p.bcl", "-s"},
		{"-t", "-s", "p.bcl", "-d"},
	}
	a := base[verif.Choice("args", len(base))]
	// a permutation by two swaps
	b := append([]string(nil), a...)
	i, j := verif.Choice("i", len(b)), verif.Choice("j", len(b))
	b[i], b[j] = b[j], b[i]
	d := verif.Byte("digit")
	verif.Assume(d >= '0' && d <= '9')
	src := "def t {\n f = 6 / " + string([]byte{d}) + "\n}\nprint \"x\"\n"
	names, contents := []string{"p.bcl"}, []string{src}
	s1, o1, e1, _, _ := verif.RunCmd(a, "", names, contents)
	s2, o2, e2, _, _ := verif.RunCmd(b, "", names, contents)
	verif.Observe("status", s1)
	verif.Assert(s1 == s2 && o1 == o2 && e1 == e2, "flag order does not change the outcome")
	// clustering
	if len(a) >= 3 && len(a[0]) == 2 && len(a[1]) == 2 && a[0][1] != '-' && a[1][1] != '-' {
		c := append([]string{a[0] + a[1][1:]}, a[2:]...)
		s3, o3, e3, _, _ := verif.RunCmd(c, "", names, contents)
		verif.Assert(s1 == s3 && o1 == o3 && e1 == e3, "a cluster equals its expansion")
		verif.Reach("cluster")
	}
	verif.Reach("compared")
}

// C18_Cluster: '-' followed by two symbolic lower-case letters.
func C18_Cluster() {
	l := verif.Bytes("letters", 2+verif.Tier())
	for _, c := range l {
		verif.Assume(c >= 'a' && c <= 'z')
	}
	args := []string{"-" + string(l), "p.bcl"}
	names, contents := []string{"p.bcl"}, []string{"print 1\n"}
	status, stdout, _, _, _ := verif.RunCmd(args, "", names, contents)
	ref := refParseArgs(args)
	verif.Observe("status", status)
	switch {
	case ref.help:
		verif.Assert(status == 0 && stdout == c18Usage+"\n", "-h prints the usage and exits 0")
		verif.Reach("help")
	case ref.usageErr:
		verif.Assert(status == 2, "unknown letters are a usage error")
		verif.Reach("usage-error")
	default:
		verif.Assert(status == 0, "known letters run the program")
		verif.Reach("success")
	}
}

// C18_DumpLoad: --bdump writes a file from which --bload reproduces the same
// output and exit status.
func C18_DumpLoad() {
	d := verif.Byte("digit")
	verif.Assume(d >= '0' && d <= '9')
	src := "var x = 3\nprint x * 1" + string([]byte{d}) + "\nprint 72057594037927936\nprint -0x7fffffffffffffff\nprint 9 / " + string([]byte{d}) + "\n"
	form := verif.Choice("form", 8)
	var dumpArgs, loadArgs []string
	bfile := "p.bcb"
	fname := "p.bcl"
	stdin := ""
	switch form {
	case 5, 6, 7: // the dump name is derived from FILE by replacing its suffix
		fname = []string{"calc.bcl", "lib.bcl", "a.b.bcl"}[form-5]
		bfile = fname[:len(fname)-4] + ".bcb"
		dumpArgs, loadArgs = []string{"--bdump", fname}, []string{"--bload", bfile}
	case 3: // the program comes from standard input (file omitted)
		bfile, stdin = "out.bin", src
		dumpArgs, loadArgs = []string{"--bdump=out.bin"}, []string{"--bload=out.bin"}
	case 4: // ... or given as '-'
		bfile, stdin = "out.bin", src
		dumpArgs, loadArgs = []string{"--bdump=out.bin", "-"}, []string{"out.bin", "--bload"}
	case 0:
		dumpArgs, loadArgs = []string{"--bdump", "p.bcl"}, []string{"--bload", "p.bcb"}
	case 1:
		bfile = "out.bin"
		dumpArgs, loadArgs = []string{"p.bcl", "--bdump=out.bin"}, []string{"--bload=out.bin"}
	default:
		dumpArgs, loadArgs = []string{"--bdump", "p.bcl"}, []string{"--bload=p.bcb"}
	}
	// introspection flags apply to both runs alike
	if extra := []string{"", "-d", "-t", "-dt"}[verif.Choice("extra", 4)]; extra != "" {
		dumpArgs, loadArgs = append(dumpArgs, extra), append([]string{extra}, loadArgs...)
	}
	s1, o1, e1, names, contents := verif.RunCmd(dumpArgs, stdin, []string{fname}, []string{src})
	found := false
	for _, n := range names {
		found = found || n == bfile
	}
	verif.Assert(found, "--bdump writes the bytecode file")
	s2, o2, e2, _, _ := verif.RunCmd(loadArgs, "", names, contents)
	verif.Observe("status", s1)
	verif.Assert(s1 == s2, "same exit status from the bytecode file")
	verif.Assert(o1 == o2, "same output from the bytecode file")
	verif.Assert(e1 == e2, "same standard error from the bytecode file")
	if s1 == 0 {
		verif.Reach("success")
	} else {
		verif.Reach("run-error")
	}
}

var _ = fmt.Sprint

// C18_Big: CONCRETE INSTANCE - a program whose bytecode exceeds the 4096-byte
// read buffer, dumped and loaded back by the tool.
func C18_Big() {
	src := ""
	for i := 0; i < 700; i++ {
		src += "print " + itoa(1000+i) + " + " + itoa(i) + "\n"
	}
	s1, o1, e1, names, contents := verif.RunCmd([]string{"--bdump", "p.bcl"}, "", []string{"p.bcl"}, []string{src})
	s2, o2, e2, _, _ := verif.RunCmd([]string{"--bload", "p.bcb"}, "", names, contents)
	verif.Observe("status", s1)
	verif.Assert(s1 == 0 && s2 == 0, "both runs succeed")
	verif.Assert(o1 == o2 && e1 == e2, "same output from the bytecode file")
	verif.Reach("compared")
}

// C18_DumpError: an error writing the bytecode file is reported with status 1.
func C18_DumpError() {
	status, _, stderr, _, _ := verif.RunCmd([]string{"--bdump=/dev/full", "p.bcl"}, "", []string{"p.bcl"}, []string{"print 1\n"})
	verif.Observe("status", status)
	verif.Assert(status == 1 && len(stderr) > 0, "a failed dump exits with status 1 and a message")
	verif.Reach("compared")
}
