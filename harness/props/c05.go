package props

import (
	"strconv"

	"github.com/wkhere/bcl"

	"verifharness/symio"
	"verifharness/verif"
)

// Target families (the quantifier "all struct types" is a finite harness
// family; field values, names and key spellings are symbolic).

type T1 struct {
	Name    string
	Count   int
	Ratio   float64
	Label   string
	Enabled bool
}

type T2 struct {
	Name      string
	LocalPort int `bcl:"lp"`
	Host      string
	Extras    struct {
		MaxLatency float64
		Tag        string `bcl:"t_g"`
	}
}

type Inner struct {
	Name string
	X    int
}

type T3 struct {
	Name  string
	A     int
	Inner Inner
}

type T4 struct { // no Name field
	V int
}

// keySpelling returns one of the spellings of a field name admitted by the
// matching rule: case flips and inserted underscores.
func keySpelling(name string, variant int) string {
	switch variant {
	case 0:
		return name
	case 1:
		return lower(name)
	case 2: // snake: underscore before each inner capital, lower case
		out := ""
		for i := 0; i < len(name); i++ {
			c := name[i]
			if c >= 'A' && c <= 'Z' {
				if i > 0 {
					out += "_"
				}
				c += 'a' - 'A'
			}
			out += string(c)
		}
		return out
	case 3:
		return upper(name)
	default: // underscores around
		return "_" + lower(name) + "_"
	}
}

func lower(s string) string {
	b := []byte(s)
	for i, c := range b {
		if c >= 'A' && c <= 'Z' {
			b[i] = c + 'a' - 'A'
		}
	}
	return string(b)
}

func upper(s string) string {
	b := []byte(s)
	for i, c := range b {
		if c >= 'a' && c <= 'z' {
			b[i] = c - 'a' + 'A'
		}
	}
	return string(b)
}

// C05_Bind: Bind of a block with symbolic field values into each target
// family; key spellings vary over the admitted forms; struct and slice
// bindings; previous slice contents are discarded.
func C05_Bind() {
	v := verif.Choice("variant", 5)
	count := verif.Int("count")
	ratio := verif.Float64("ratio")
	label := verif.String("label", verif.Choice("labellen", 3+2*verif.Tier()))
	enabled := verif.Bool("enabled")
	name := verif.String("name", verif.Choice("namelen", 3+2*verif.Tier()))
	blk := bcl.Block{Type: keySpelling("T1", v%2), Name: name, Fields: map[string]any{
		keySpelling("Count", v):   count,
		keySpelling("Ratio", v):   ratio,
		keySpelling("Label", v):   label,
		keySpelling("Enabled", v): enabled,
	}}
	want := T1{Name: name, Count: count, Ratio: ratio, Label: label, Enabled: enabled}
	if verif.Choice("binding", 2) == 0 {
		var got T1
		err := bcl.Bind(&got, bcl.StructBinding{Value: blk})
		verif.Observe("err", err)
		verif.Assert(err == nil, "struct bind succeeds")
		verif.Assert(got.Name == want.Name && got.Count == want.Count && got.Label == want.Label && got.Enabled == want.Enabled, "fields reproduced")
		verif.Assert(sameFloat(got.Ratio, want.Ratio), "float reproduced")
		verif.Reach("struct")
		return
	}
	n := verif.Choice("len", 3)
	blocks := make([]bcl.Block, n)
	for i := range blocks {
		blocks[i] = blk
	}
	got := []T1{{Name: "old", Count: 7}, {Name: "old2"}, {Name: "old3"}, {Name: "old4"}}
	err := bcl.Bind(&got, bcl.SliceBinding{Value: blocks})
	verif.Observe("err", err)
	verif.Assert(err == nil, "slice bind succeeds")
	verif.Assert(len(got) == n, "slice has one element per block; previous elements are discarded")
	for i := range got {
		verif.Assert(got[i].Name == want.Name && got[i].Count == want.Count && got[i].Label == want.Label && got[i].Enabled == want.Enabled && sameFloat(got[i].Ratio, want.Ratio), "element reproduced")
	}
	verif.Reach("slice")
}

// C05_Nested: tags take precedence, nested blocks fill nested structs (named
// and anonymous), key cut at '.' for named children.
func C05_Nested() {
	lp := verif.Int("lp")
	lat := verif.Float64("lat")
	tag := verif.String("tag", 2)
	host := verif.String("host", 1)
	x := verif.Int("x")
	switch verif.Choice("case", 3) {
	case 0: // anonymous nested struct, tags
		blk := bcl.Block{Type: "t2", Name: "n", Fields: map[string]any{
			"lp":   lp,
			"host": host,
			"extras": bcl.Block{Type: "extras", Fields: map[string]any{
				"max_latency": lat,
				"t_g":         tag,
			}},
		}}
		var got T2
		err := bcl.Bind(&got, bcl.StructBinding{Value: blk})
		verif.Observe("err", err)
		verif.Assert(err == nil, "bind succeeds")
		verif.Assert(got.Name == "n" && got.LocalPort == lp && got.Host == host && got.Extras.Tag == tag && sameFloat(got.Extras.MaxLatency, lat), "nested values reproduced")
	case 1: // named nested struct type must match the block type; named child key type.name
		// the child's name is any 1..3 bytes over {'.', 'a', '_'}: the key is cut
		// at its first dot, whatever the name contains
		nb := verif.Bytes("iname", 1+verif.Choice("inamelen", 3))
		for _, c := range nb {
			verif.Assume(c == '.' || c == 'a' || c == '_')
		}
		in := string(nb)
		blk := bcl.Block{Type: "T3", Fields: map[string]any{
			"a":           lp,
			"inner." + in: bcl.Block{Type: "inner", Name: in, Fields: map[string]any{"x": x}},
		}}
		var got T3
		err := bcl.Bind(&got, bcl.StructBinding{Value: blk})
		verif.Observe("err", err)
		verif.Assert(err == nil, "bind succeeds")
		verif.Assert(got.A == lp && got.Inner.X == x && got.Inner.Name == in && got.Name == "", "named child reproduced")
	default: // a tag shadows a name match: key "localport" must not match the tagged field
		blk := bcl.Block{Type: "t2", Fields: map[string]any{"lp": lp}}
		var got T2
		err := bcl.Bind(&got, bcl.StructBinding{Value: blk})
		verif.Assert(err == nil && got.LocalPort == lp, "tag key binds")
		var t4 T4
		err = bcl.Bind(&t4, bcl.StructBinding{Value: bcl.Block{Type: "t4", Fields: map[string]any{"v": x}}})
		verif.Assert(err == nil && t4.V == x, "a struct without Name binds an unnamed block")
		err = bcl.Bind(&t4, bcl.StructBinding{Value: bcl.Block{Type: "other", Fields: map[string]any{"v": x}}})
		verif.Assert(err != nil, "a named struct type must match the block type")
	}
	verif.Reach("checked")
}

// C05_Unmarshal: end to end — text with symbolic literal digits through
// lexer, parser, VM and Bind.
func C05_Unmarshal() {
	d := verif.Bytes("digits", 2)
	for _, c := range d {
		verif.Assume(c >= '0' && c <= '9')
	}
	s := verif.Bytes("str", 2+2*verif.Tier())
	for _, c := range s {
		verif.Assume(c >= 'a' && c <= 'z' || c == ' ' || c == '#')
	}
	src := "def t1 \"nm\" {\n count = 1" + string(d) + "\n label = \"" + string(s) + "\"\n ratio = 0.5\n enabled = true\n}\nbind t1 -> struct\n"
	var got T1
	out, log := &symio.Writer{}, &symio.Writer{}
	err := bcl.Unmarshal([]byte(src), &got, bcl.OptOutput(out), bcl.OptLogger(log))
	verif.Observe("err", err)
	verif.Assert(err == nil, "unmarshal succeeds")
	want := 100 + int(d[0]-'0')*10 + int(d[1]-'0')
	verif.Assert(got.Count == want && got.Label == string(s) && got.Ratio == 0.5 && got.Enabled && got.Name == "nm", "values reproduced")
	verif.Reach("checked")
}

// C05_Escapes: a string value needing escapes, written as BCL text with the
// Go string syntax and unmarshalled back, for every 3-byte string over an
// alphabet containing backslash, quote, newline, tab and letters.
func C05_Escapes() {
	b := verif.Bytes("s", 3+verif.Tier())
	for _, c := range b {
		verif.Assume(c == '\\' || c == '"' || c == '\n' || c == '\t' || c == 'a' || c == ' ' || c == '#')
	}
	s := string(b)
	src := "def t1 \"n\" {\n label = " + strconv.Quote(s) + "\n}\nbind t1 -> struct\n"
	var got T1
	out, log := &symio.Writer{}, &symio.Writer{}
	err := bcl.Unmarshal([]byte(src), &got, bcl.OptOutput(out), bcl.OptLogger(log))
	verif.Observe("err", err)
	verif.Assert(err == nil, "unmarshal succeeds")
	verif.Assert(got.Label == s, "string with escapes reproduced")
	verif.Reach("checked")
}

type T5 struct {
	Name string
	A    int `bcl:"x"`
	X    int
	V    int `bcl:"v"`
	W    int `bcl:"V"`
}

// C05_TagCase: tags match exactly (case included) and take precedence; the
// case-insensitive rule applies to field names only.
func C05_TagCase() {
	a, x, v, w := verif.Int("a"), verif.Int("x"), verif.Int("v"), verif.Int("w")
	blk := bcl.Block{Type: "t5", Fields: map[string]any{"x": a, "X": x, "v": v, "V": w}}
	var got T5
	err := bcl.Bind(&got, bcl.StructBinding{Value: blk})
	verif.Observe("err", err)
	verif.Assert(err == nil, "bind succeeds")
	verif.Assert(got.A == a && got.X == x && got.V == v && got.W == w, "exact tags bind their own keys")
	verif.Reach("checked")
}

type Inner7 struct {
	Name string
	X    int
	Host string
}

type T7 struct {
	Name   string
	X      int
	Host   string
	Inner7 Inner7
	After  int
}

// C05_UnmarshalNested: end to end with a nested definition whose fields have
// the same names as fields of the enclosing definition (each keeps its own
// value), with fields of the parent written before and after the child.
func C05_UnmarshalNested() {
	d := verif.Bytes("digits", 3)
	for _, c := range d {
		verif.Assume(c >= '0' && c <= '9')
	}
	var pre, post string
	switch verif.Choice("order", 3) {
	case 0: // parent fields first
		pre = " x = 1" + string(d[:1]) + "\n host = \"p\"\n"
	case 1: // parent fields after the child
		post = " x = 1" + string(d[:1]) + "\n host = \"p\"\n"
	default: // one before, one after
		pre = " x = 1" + string(d[:1]) + "\n"
		post = " host = \"p\"\n"
	}
	src := "def t7 \"top\" {\n" + pre +
		" def inner7 \"in\" {\n  x = 2" + string(d[1:2]) + "\n  host = \"c\"\n }\n" + post +
		" after = 3" + string(d[2:3]) + "\n}\nbind t7 -> struct\n"
	var got T7
	out, log := &symio.Writer{}, &symio.Writer{}
	err := bcl.Unmarshal([]byte(src), &got, bcl.OptOutput(out), bcl.OptLogger(log))
	verif.Observe("err", err)
	verif.Assert(err == nil, "unmarshal succeeds")
	verif.Assert(got.Name == "top" && got.X == 10+int(d[0]-'0') && got.Host == "p", "parent fields reproduced")
	verif.Assert(got.Inner7.Name == "in" && got.Inner7.X == 20+int(d[1]-'0') && got.Inner7.Host == "c", "child fields reproduced")
	verif.Assert(got.After == 30+int(d[2]-'0'), "field after the child reproduced")
	verif.Reach("checked")
}

type TKw struct {
	Name   string
	Print  int
	Not    int
	Or     int
	And    int
	Var    int
	Nil    int
	Def    int
	Eval   int
	Bind   int
	True   int
	False  int
	Struct int
	Slice  int
}

// C05_KeywordFields: struct fields named like the language's (lower-case)
// keywords, written in the text with another letter case, are ordinary fields.
func C05_KeywordFields() {
	names := []string{"Print", "Not", "Or", "And", "Var", "Nil", "Def", "Eval", "Bind", "True", "False", "Struct", "Slice"}
	i := verif.Choice("field", len(names))
	var key string
	switch verif.Choice("case", 3) {
	case 0:
		key = names[i]
	case 1:
		key = upper(names[i])
	default:
		key = lower(names[i][:1]) + upper(names[i][1:])
	}
	d := verif.Bytes("digit", 1)
	verif.Assume(d[0] >= '0' && d[0] <= '9')
	src := "def tkw \"n\" {\n " + key + " = 4" + string(d) + "\n}\nbind tkw -> struct\n"
	var got TKw
	out, log := &symio.Writer{}, &symio.Writer{}
	err := bcl.Unmarshal([]byte(src), &got, bcl.OptOutput(out), bcl.OptLogger(log))
	verif.Observe("err", err)
	verif.Assert(err == nil, "unmarshal succeeds")
	want := 40 + int(d[0]-'0')
	vals := []int{got.Print, got.Not, got.Or, got.And, got.Var, got.Nil, got.Def, got.Eval, got.Bind, got.True, got.False, got.Struct, got.Slice}
	for j, v := range vals {
		if j == i {
			verif.Assert(v == want, "the field is set")
		} else {
			verif.Assert(v == 0, "other fields untouched")
		}
	}
	verif.Reach("checked")
}

type (
	N16 struct{ V int }
	N15 struct {
		V   int
		N16 N16
	}
	N14 struct {
		V   int
		N15 N15
	}
	N13 struct {
		V   int
		N14 N14
	}
	N12 struct {
		V   int
		N13 N13
	}
	N11 struct {
		V   int
		N12 N12
	}
	N10 struct {
		V   int
		N11 N11
	}
	N9 struct {
		V   int
		N10 N10
	}
	N8 struct {
		V  int
		N9 N9
	}
	N7 struct {
		V  int
		N8 N8
	}
	N6 struct {
		V  int
		N7 N7
	}
	N5 struct {
		V  int
		N6 N6
	}
	N4 struct {
		V  int
		N5 N5
	}
	N3 struct {
		V  int
		N4 N4
	}
	N2 struct {
		V  int
		N3 N3
	}
	N1 struct {
		V  int
		N2 N2
	}
)

// C05_Deep: definitions nested up to the documented limit of 16 unmarshal
// into a struct nested as deep; every level keeps its own value.
func C05_Deep() {
	depth := []int{2, 15, 16}[verif.Choice("depth", 3)]
	d := verif.Bytes("digit", 1)
	verif.Assume(d[0] >= '0' && d[0] <= '9')
	src := ""
	for i := 1; i <= depth; i++ {
		src += "def n" + strconv.Itoa(i) + " {\n v = " + strconv.Itoa(i) + string(d) + "\n"
	}
	for i := 1; i <= depth; i++ {
		src += "}\n"
	}
	src += "bind n1 -> struct\n"
	var got N1
	out, log := &symio.Writer{}, &symio.Writer{}
	err := bcl.Unmarshal([]byte(src), &got, bcl.OptOutput(out), bcl.OptLogger(log))
	verif.Observe("err", err)
	verif.Assert(err == nil, "unmarshal succeeds")
	x := int(d[0] - '0')
	verif.Assert(got.V == 10+x && got.N2.V == 20+x, "outer levels reproduced")
	if depth >= 15 {
		l15 := got.N2.N3.N4.N5.N6.N7.N8.N9.N10.N11.N12.N13.N14.N15
		verif.Assert(l15.V == 150+x, "level 15 reproduced")
		if depth == 16 {
			verif.Assert(l15.N16.V == 160+x, "level 16 reproduced")
		} else {
			verif.Assert(l15.N16.V == 0, "level 16 untouched")
		}
	}
	verif.Reach("checked")
}

type TF2 struct {
	Name string
	A    float64
	B    float64
	C    float64
}

// C05_FloatPairs: CONCRETE INSTANCES - float fields whose literals are close
// (equal as float32, or equal up to the last bits) each keep their own value.
func C05_FloatPairs() {
	pairs := [][2]string{
		{"0.1", "0.10000000001"}, {"1e300", "1.7976931348623157e308"}, {"0.0", "5e-324"},
		{"1.5", "1.5000000001"}, {"16777216.0", "16777217.0"}, {"1e-46", "1e-47"},
		{"0.30000000000000004", "0.3"}, {"2.5", "2.5"},
	}
	want := [][2]float64{
		{0.1, 0.10000000001}, {1e300, 1.7976931348623157e308}, {0.0, 5e-324},
		{1.5, 1.5000000001}, {16777216.0, 16777217.0}, {1e-46, 1e-47},
		{0.30000000000000004, 0.3}, {2.5, 2.5},
	}
	i := verif.Choice("pair", len(pairs))
	src := "def tf2 \"n\" {\n a = " + pairs[i][0] + "\n b = " + pairs[i][1] + "\n c = " + pairs[i][0] + "\n}\nbind tf2 -> struct\n"
	if verif.Choice("order", 2) == 1 {
		src = "def tf2 \"n\" {\n b = " + pairs[i][1] + "\n a = " + pairs[i][0] + "\n c = " + pairs[i][0] + "\n}\nbind tf2 -> struct\n"
	}
	var got TF2
	out, log := &symio.Writer{}, &symio.Writer{}
	err := bcl.Unmarshal([]byte(src), &got, bcl.OptOutput(out), bcl.OptLogger(log))
	verif.Observe("err", err)
	verif.Assert(err == nil, "unmarshal succeeds")
	verif.Assert(sameFloat(got.A, want[i][0]) && sameFloat(got.B, want[i][1]) && sameFloat(got.C, want[i][0]), "each float field keeps its own value")
	verif.Reach("checked")
}

type TRec struct {
	Name string
	Port int
	Host string
}

// C05_ManyRecords: CONCRETE INSTANCES - a slice of n records, so that the
// program holds more than 240 (and more than 2287) constants; every record is
// reproduced.
func C05_ManyRecords() {
	n := []int{60, 79, 80, 81, 82, 120, 800}[verif.Choice("n", 7)]
	src := ""
	for i := 0; i < n; i++ {
		src += "def trec \"r" + strconv.Itoa(i) + "\" {\n port = " + strconv.Itoa(8000+i) + "\n host = \"h" + strconv.Itoa(i) + "\"\n}\n"
	}
	src += "bind trec:all -> slice\n"
	var got []TRec
	out, log := &symio.Writer{}, &symio.Writer{}
	err := bcl.Unmarshal([]byte(src), &got, bcl.OptOutput(out), bcl.OptLogger(log))
	verif.Observe("err", err)
	verif.Assert(err == nil, "unmarshal succeeds")
	verif.Assert(len(got) == n, "one element per record")
	for i := range got {
		verif.Assert(got[i].Name == "r"+strconv.Itoa(i) && got[i].Port == 8000+i && got[i].Host == "h"+strconv.Itoa(i), "record reproduced")
	}
	verif.Reach("checked")
}

// C05_LocalTypes: two distinct struct types with the same name (local to two
// functions) and different tag layouts, bound one after the other.
func C05_LocalTypes() {
	v, w := verif.Int("v"), verif.Int("w")
	verif.Assert(c15LocalA(v) == v, "first type binds its tagged field")
	verif.Assert(c15LocalB(w) == w, "second type (same name, other layout) binds its own tagged field")
	verif.Assert(c15LocalA(w) == w, "first type again")
	verif.Reach("checked")
}

type Opt struct {
	Level int
	Mode  string
}

type Extra struct {
	Mode string
}

type Reco struct {
	Name    string
	Port    int
	Weight  float64
	Enabled bool
	Opt     Opt
	Extra   Extra
}

// C05_EmptyNested: records whose nested blocks are empty in one place and
// populated in another (same parent, next record, either order); a digit of
// the text is symbolic. Every record gets its own values and nothing else.
func C05_EmptyNested() {
	d := verif.Bytes("digit", 1)
	verif.Assume(d[0] >= '0' && d[0] <= '9')
	lvl := int(d[0] - '0')
	full := "def opt {\n level = " + string(d) + "\n}\n"
	empty := "def opt {\n}\n"
	extraFull := "def extra {\n mode = \"m\"\n}\n"
	extraEmpty := "def extra {\n}\n"
	var src string
	var want []Reco
	switch verif.Choice("case", 5) {
	case 0: // empty, then populated in the next record
		src = "def reco \"a\" {\n" + empty + "}\ndef reco \"b\" {\n" + full + "}\n"
		want = []Reco{{Name: "a"}, {Name: "b", Opt: Opt{Level: lvl}}}
	case 1: // populated, then empty
		src = "def reco \"a\" {\n" + full + "}\ndef reco \"b\" {\n" + empty + "}\n"
		want = []Reco{{Name: "a", Opt: Opt{Level: lvl}}, {Name: "b"}}
	case 2: // empty sibling followed by a populated sibling of another type
		src = "def reco \"a\" {\n" + empty + extraFull + "}\n"
		want = []Reco{{Name: "a", Extra: Extra{Mode: "m"}}}
	case 3: // three records, the middle one empty everywhere
		src = "def reco \"a\" {\n" + full + extraFull + "}\ndef reco \"b\" {\n" + empty + extraEmpty + "}\ndef reco \"c\" {\n" + extraFull + full + "}\n"
		want = []Reco{{Name: "a", Opt: Opt{Level: lvl}, Extra: Extra{Mode: "m"}}, {Name: "b"}, {Name: "c", Opt: Opt{Level: lvl}, Extra: Extra{Mode: "m"}}}
	case 4: // an empty record, then one with fields; empty nested in between
		src = "def reco \"a\" {\n}\ndef reco \"b\" {\n port = 8" + string(d) + "\n" + extraEmpty + full + "}\n"
		want = []Reco{{Name: "a"}, {Name: "b", Port: 80 + lvl, Opt: Opt{Level: lvl}}}
	}
	src += "bind reco:all -> slice\n"
	var got []Reco
	out, log := &symio.Writer{}, &symio.Writer{}
	err := bcl.Unmarshal([]byte(src), &got, bcl.OptOutput(out), bcl.OptLogger(log))
	verif.Observe("err", err)
	verif.Assert(err == nil, "unmarshal succeeds")
	verif.Assert(len(got) == len(want), "one element per record")
	if len(got) == len(want) {
		for i := range got {
			verif.Assert(got[i] == want[i], "record reproduced, nothing else set")
		}
	}
	verif.Reach("checked")
}

// C05_Reload: Unmarshal into a slice that already holds records (several
// length/capacity combinations, data also in the spare capacity): the result
// is exactly the configuration's records; fields a record does not mention
// are zero, whatever the target held before.
func C05_Reload() {
	d := verif.Bytes("digit", 1)
	verif.Assume(d[0] >= '0' && d[0] <= '9')
	old := Reco{Name: "old", Port: 1, Weight: 1.5, Enabled: true, Opt: Opt{9, "x"}, Extra: Extra{"y"}}
	var got []Reco
	switch verif.Choice("target", 5) {
	case 0:
		got = nil
	case 1:
		got = []Reco{old, old, old, old}[:3]
	case 2:
		got = []Reco{old, old, old, old}[:1]
	case 3:
		got = []Reco{old, old}
	case 4:
		got = []Reco{old}
	}
	src := "def reco \"a\" {\n port = 8" + string(d) + "\n}\ndef reco \"b\" {\n def opt {\n mode = \"m\"\n }\n}\n"
	want := []Reco{{Name: "a", Port: 80 + int(d[0]-'0')}, {Name: "b", Opt: Opt{Mode: "m"}}}
	if verif.Choice("third", 2) == 1 {
		src += "def reco \"c\" {\n enabled = false\n}\n"
		want = append(want, Reco{Name: "c"})
	}
	src += "bind reco:all -> slice\n"
	out, log := &symio.Writer{}, &symio.Writer{}
	err := bcl.Unmarshal([]byte(src), &got, bcl.OptOutput(out), bcl.OptLogger(log))
	verif.Observe("err", err)
	verif.Assert(err == nil, "unmarshal succeeds")
	verif.Assert(len(got) == len(want), "exactly the configuration's records")
	if len(got) == len(want) {
		for i := range got {
			verif.Assert(got[i] == want[i], "record reproduced, nothing left over from the target")
		}
	}
	// a struct target that held data: mentioned fields replaced
	one := old
	err = bcl.Unmarshal([]byte("def reco \"z\" {\n port = 7\n}\nbind reco -> struct\n"), &one, bcl.OptOutput(out), bcl.OptLogger(log))
	verif.Assert(err == nil && one.Name == "z" && one.Port == 7, "struct target rebound")
	verif.Reach("checked")
}

type TSwap struct {
	Name    string
	Host    string `bcl:"address"`
	Address string
}

type TSwap2 struct {
	Left  int `bcl:"right"`
	Right int `bcl:"left"`
	Mid   int
}

type TSwap3 struct {
	Address string
	Host    string `bcl:"address"`
}

// C05_TagVsName: a bcl tag that spells another field's name: the tag wins for
// that exact key, in either declaration order; values symbolic.
func C05_TagVsName() {
	h := verif.String("h", 1)
	a, b, m := verif.Int("a"), verif.Int("b"), verif.Int("m")
	var s1 TSwap
	err := bcl.Bind(&s1, bcl.StructBinding{Value: bcl.Block{Type: "tswap", Name: "n", Fields: map[string]any{"address": h}}})
	verif.Observe("err1", err)
	verif.Assert(err == nil && s1.Host == h && s1.Address == "" && s1.Name == "n", "tagged field receives the tag's key")
	var s3 TSwap3
	err = bcl.Bind(&s3, bcl.StructBinding{Value: bcl.Block{Type: "tswap3", Fields: map[string]any{"address": h}}})
	verif.Observe("err3", err)
	verif.Assert(err == nil && s3.Host == h && s3.Address == "", "tagged field receives the tag's key (declared after the namesake)")
	var s2 TSwap2
	err = bcl.Bind(&s2, bcl.StructBinding{Value: bcl.Block{Type: "tswap2", Fields: map[string]any{"left": a, "right": b, "mid": m}}})
	verif.Observe("err2", err)
	verif.Assert(err == nil && s2.Left == b && s2.Right == a && s2.Mid == m, "crossed tags bind by tag")
	verif.Reach("checked")
}
