package props

import (
	"verifharness/verif"
)

// statement templates; K is replaced by a fresh placeholder literal
var c02Top = []string{
	"var a = K",
	"var a",
	"var b = a",
	"eval a = K",
	"print a",
	"print b",
	"var a = a + K",
	"print (a = K) + a",
	"eval b = a",
}

var c02In = []string{
	"var a = K",
	"var a",
	"var b = a",
	"a = K",
	"print a",
	"print b",
	"var a = a + K",
	"print (a = K) + a",
	"b = a",
	"b = K",
	"print (b = K) + b",
}

type c02Gen struct {
	src    string
	n      int
	values map[string]any
}

func (g *c02Gen) stmt(tpl string) {
	for i := 0; i < len(tpl); i++ {
		if tpl[i] == 'K' {
			text := []string{"1001", "1002", "1003", "1004", "1005", "1006", "1007", "1008"}[g.n]
			g.values[text] = verif.Int("k" + text)
			g.n++
			g.src += text
		} else {
			g.src += string(tpl[i])
		}
	}
	g.src += "\n"
}

// C02_Scopes: programs built from declaration / assignment / read templates
// over the names a and b at toplevel, in a block and in a nested block; every
// assigned value is a distinct symbolic int, so the printed values and fields
// only agree with the reference for all values if each identifier resolves to
// the slot the scoping rules designate.
func C02_Scopes() {
	g := &c02Gen{values: map[string]any{}}
	pick := func(name string, all []string, quick []int) string {
		if verif.Tier() == 1 {
			return all[verif.Choice(name, len(all))]
		}
		return all[quick[verif.Choice(name, len(quick))]]
	}
	if verif.Tier() == 1 {
		g.stmt(c02Top[verif.Choice("pre", len(c02Top))])
	} else {
		g.stmt("var a = K")
	}
	g.stmt(pick("pre2", c02Top, []int{2, 4, 6}))
	g.src += "def t {\n"
	g.stmt(c02In[verif.Choice("in1", len(c02In))])
	nested := verif.Choice("nested", 2) == 1
	if nested {
		g.src += "def u {\n"
		g.stmt(c02In[verif.Choice("in2", len(c02In))])
		g.src += "}\n"
	}
	g.stmt(pick("in3", c02In, []int{2, 4, 5, 8}))
	g.src += "}\n"
	g.stmt(pick("post", c02Top, []int{4, 5}))
	r := runBoth(g.src, g.values)
	verif.Observe("rejected", r.ParseErr != nil)
	verif.Observe("out", r.Real.Out)
	verif.Observe("err", errClass(r.Real.Err))
	r.assertAgree("scopes")
	if r.ParseErr == nil {
		verif.Reach("accepted")
	} else {
		verif.Reach("rejected")
	}
}

// C02_Curated: hand-picked programs for the corners of the scoping rules.
func C02_Curated() {
	progs := []string{
		"var x = 1001\nvar x = 1002\n",                                // redeclaration at toplevel
		"def t { var x = 1001\n var x = 1002 }\n",                     // redeclaration in a block
		"var x = 1001\ndef t { var x = x + 1002\n f = x }\nprint x\n", // shadowing, initializer sees outer
		"var x = 1001\ndef t { var x = 1002\n def u { var x = 1003\n g = x } f = x }\nprint x\n",
		"def t { f = 1001\n def u { g = f\n f = 1002\n h = f } k = f }\n", // field read from enclosing block, write local
		"def t { var f = 1001\n f = 1002\n g = f }\n",                     // assignment hits the variable, not a field
		"def t { f = 1001\n var f = 1002\n g = f }\n",                     // later variable shadows the field
		"print y\n",                                // unknown at toplevel
		"eval y = 1001\n",                          // assignment to unknown at toplevel
		"def t { g = y }\n",                        // unknown in block: runtime error
		"def t { var v = v }\n",                    // self reference with nothing outer
		"var x\nprint x\neval x = 1001\nprint x\n", // uninitialised is nil
		"var x = 1001\neval x = (x = x + 1002) + x\nprint x\n",                    // nested assignment, evaluation order
		"def t { x = 1001\n x = x + 1002\n y = (x = 1003) + x }\n",                // field re-assignment in expressions
		"var a = 1001\ndef t { def u { def w { f = a\n a = 1002 } } }\nprint a\n", // toplevel var from depth 3
		"def t { var a = 1001 }\nprint a\n",                                       // block variable gone after the block
		"def t { var a = 1001\n def u { var b = a } \n c = b }\n",                 // inner variable gone: b is a field lookup
		"def a { x = 1001\n def b { x = 1002\n def c { y = x } } }\n",             // nearest enclosing block wins (depth 3)
		"def a { x = 1001\n def b { z = 1002\n def c { y = x\n w = z } } }\n",
		"def a { x = 1001\n def b { x = 1002\n def c { x = 1003\n def d { y = x } } } }\n",
		"def a { x = 1001\n def b { def c { x = 1002 }\n y = x } }\n", // a sibling's child does not count
		"def t { x = nil\n y = x\n print x }\n",                       // a field holding nil is still a field
		"def a { x = 1001\n def b { x = nil\n y = x } }\n",            // inner nil field shadows the outer one
		"var u\ndef t { f = u\n g = f\n print g }\n",                  // uninitialised variable into a field
		"def t { var z = 1001\n def u { } }\nprint z\n",               // block variable gone although a nested block followed
		"def t { var z = 1001\n def u { } }\ndef w { var z = 1002\n f = z }\n",
		"def t { var p = 1001\n def u { } }\ndef w { p = 1002\n q = p }\n", // p is a field in w
		"def t { var v = 1001 }\ndef u { v = 1002 }\n",                     // first variable of the program declared in a block
		"def t { var v = 1001\n def i { var w = 1002 } x = v }\ndef u { v = 1003\n w = v }\n",
		// a variable declared after a field of the same name was used, initialised from it
		"def b { x = 1001\n var x = x + 1002\n print x\n y = x }\n",
		"def a { x = 1001\n def b { var x = x + 1002\n print x\n x = 1003\n print x }\n print x }\n",
		"def b { x = 1001\n var x = x\n var y = (x = x + 1002) + x\n print x\n print y }\n",
		"def b { x = 1001\n print x\n var x = 1002\n print x\n def c { print x\n x = 1003\n print x } }\n",
		"var q = 1001\ndef b { print q\n q = 1002\n print q\n var q = q + 1003\n print q }\nprint q\n",
	}
	src := progs[verif.Choice("prog", len(progs))]
	values := map[string]any{}
	for _, text := range []string{"1001", "1002", "1003"} {
		if containsStr(src, text) {
			values[text] = verif.Int("k" + text)
		}
	}
	r := runBoth(src, values)
	verif.Observe("rejected", r.ParseErr != nil)
	verif.Observe("out", r.Real.Out)
	verif.Observe("err", errClass(r.Real.Err))
	r.assertAgree("curated")
	verif.Reach("compared")
}

// C02_Many: CONCRETE INSTANCES - a block (or the toplevel) with 239..300
// variables, so that slot numbers and the POPN count cross the one-byte varint
// range; variables declared after the block must still resolve.
func C02_Many() {
	n := []int{239, 240, 241, 255, 256, 300}[verif.Choice("n", 6)]
	inBlock := verif.Choice("where", 2) == 1
	src := ""
	if inBlock {
		src += "var before = 1\ndef t {\n"
	}
	for i := 0; i < n; i++ {
		src += "var v" + itoa(i) + " = " + itoa(i+2) + "\n"
	}
	src += "print v" + itoa(n-1) + " + v0\n"
	src += "eval v" + itoa(n-1) + " = 7\nprint v" + itoa(n-1) + "\nprint v0\n"
	if inBlock {
		src += "f = v" + itoa(n-1) + "\n}\nvar w = 3\nprint w + before\n"
	} else {
		src += "def t {\n var inner = v" + itoa(n-1) + "\n f = inner\n}\nvar w = 3\nprint w\n"
	}
	r := runBoth(src, nil)
	verif.Observe("out", r.Real.Out)
	verif.Observe("err", errClass(r.Real.Err))
	r.assertAgree("many")
	verif.Reach("compared")
}

// C02_Siblings: two sibling blocks (and what follows them) built from the
// statement templates. A slot freed at the end of the first block is taken
// again by the second one: every identifier of the second block must resolve
// by the scoping rules alone, whatever the first block declared or read in
// the same slots.
func C02_Siblings() {
	g := &c02Gen{values: map[string]any{}}
	if verif.Choice("pre", 2) == 1 {
		g.stmt("var a = K")
	}
	first := [][2]int{{0, 4}, {0, 2}, {6, 4}, {1, 4}, {0, 7}, {2, 5}}
	if verif.Tier() == 1 {
		g.src += "def t {\n"
		g.stmt(c02In[verif.Choice("s1", len(c02In))])
		g.stmt(c02In[verif.Choice("s2", len(c02In))])
	} else {
		f := first[verif.Choice("first", len(first))]
		g.src += "def t {\n"
		g.stmt(c02In[f[0]])
		g.stmt(c02In[f[1]])
	}
	g.src += "}\n"
	nested := verif.Choice("nested", 2) == 1
	if nested {
		g.src += "def w {\n"
	}
	g.src += "def u {\n"
	g.stmt(c02In[verif.Choice("s3", len(c02In))])
	if verif.Tier() == 1 {
		g.stmt(c02In[verif.Choice("s4", len(c02In))])
	} else {
		g.stmt(c02In[[]int{4, 5, 8}[verif.Choice("s4", 3)]])
	}
	g.src += "}\n"
	if nested {
		g.src += "}\n"
	}
	r := runBoth(g.src, g.values)
	verif.Observe("rejected", r.ParseErr != nil)
	verif.Observe("out", r.Real.Out)
	verif.Observe("err", errClass(r.Real.Err))
	r.assertAgree("siblings")
	if r.ParseErr == nil {
		verif.Reach("accepted")
	} else {
		verif.Reach("rejected")
	}
}

// C02_FieldChain: a field x may be set, at each of three nesting levels, to a
// symbolic int, nil, false, 0, "" or not at all; the innermost block (and the
// middle one) reads it. The nearest enclosing block that HAS the field wins,
// whatever value it holds, and no holder at all is a runtime error.
func C02_FieldChain() {
	kinds := []string{"", "x = 1001\n", "x = nil\n", "x = false\n", "x = 0\n", "x = \"\"\n", "var u\nx = u\n"}
	src := "def a {\n" + kinds[verif.Choice("l1", len(kinds))]
	src += "def b {\n" + kinds[verif.Choice("l2", len(kinds))]
	src += "def c {\n"
	l3 := verif.Choice("l3", 3)
	src += []string{"", "x = nil\n", "x = 1002\n"}[l3]
	src += "y = x\nprint x\n}\nz = x\n}\n"
	if verif.Choice("after", 2) == 1 {
		src += "w = x\n"
	}
	src += "}\n"
	values := map[string]any{}
	for _, text := range []string{"1001", "1002"} {
		if containsStr(src, text) {
			values[text] = verif.Int("k" + text)
		}
	}
	r := runBoth(src, values)
	verif.Observe("out", r.Real.Out)
	verif.Observe("err", errClass(r.Real.Err))
	r.assertAgree("fieldchain")
	verif.Reach("compared")
}

// C02_SlotSweep: CONCRETE INSTANCES - k variables (and k constants) precede a
// block whose scope ends right after a statement whose last operand is slot
// k-1 / constant k, for every k in the range: the state left behind by a scope
// must not depend on the numeric value of a slot or constant index.
func C02_SlotSweep() {
	max := 72
	if verif.Tier() == 1 {
		max = 300
	}
	k := verif.Choice("k", max)
	last := "v" + itoa(k-1)
	src := ""
	for i := 0; i < k; i++ {
		src += "var v" + itoa(i) + " = " + itoa(5000+i) + "\n"
	}
	if k == 0 {
		last = "77"
	}
	stmt := []string{
		"var z = " + last,
		"var z = 99999",
		"print " + last,
		"f = " + last,
		"var z = " + last + " + 1",
		"var z = not " + last,
		"var z = " + last + " and 99999",
		"var z = 99999 or " + last,
		"var z = -" + last,
	}
	s := stmt[verif.Choice("stmt", len(stmt))]
	nlocals := verif.Choice("locals", 3)
	src += "def t {\n"
	for i := 0; i < nlocals; i++ {
		src += "var y" + itoa(i) + " = " + itoa(i+1) + "\n"
	}
	src += s + "\n}\nprint 42\n"
	if k > 0 {
		src += "print v0 + " + last + "\n"
	}
	src += "def u {\n var q = 3\n g = q\n}\n"
	r := runBoth(src, nil)
	verif.Observe("out", r.Real.Out)
	verif.Observe("err", errClass(r.Real.Err))
	r.assertAgree("slotsweep")
	verif.Reach("compared")
}
