package props

import (
	"verifharness/verif"
)

var c03Templates = []string{
	"def t {\n f = K\n}",
	"def t \"n\" {\n f = K\n f = K\n}",
	"def u {\n f = K\n g = f\n}",
	"def t \"m\" {\n var v = K\n f = v\n}",
	"def t {\n}",
	"def u \"n\" {\n x = TYPE\n y = NAME\n}",
	"def t {\n f = K\n def c {\n g = K\n}\n}",
	"def t \"n\" {\n def c \"x\" {\n g = K\n}\n def c \"y\" {\n g = K\n}\n}",
	"def t {\n def c {\n g = K\n}\n def c {\n g = K\n}\n}",
	"def u {\n f = K\n def c \"x\" {\n h = f\n def d {\n k = h\n}\n}\n}",
	"def t \"n\" {\n def t \"n\" {\n f = K\n}\n}",
	"def t {\n var f = K\n g = f\n def c {\n var g = K\n h = g\n}\n}",
	"def t {\n c = K\n def c {\n x = K\n}\n}",
	"def t \"a.\" {\n def c \"x.\" {\n g = K\n}\n def c \"x\" {\n g = K\n}\n}",
	"def t \"n\" {\n TYPE = K\n NAME = K\n x = TYPE\n y = NAME\n}",
	"def u {\n f = K\n def c {\n f = K\n g = f\n}\n h = f\n}",
}

// C03_Blocks: one to three (four thorough) toplevel blocks chosen from twelve
// block templates (named/unnamed, repeated types and names, re-assignment,
// variables, nested blocks two deep, duplicate child), all values symbolic:
// the returned []Block must mirror the definitions.
func C03_Blocks() {
	g := &c02Gen{values: map[string]any{}}
	ntop := 1 + verif.Choice("ntop", 2+verif.Tier())
	for i := 0; i < ntop && g.n <= 5; i++ {
		g.stmt(c03Templates[verif.Choice("block", len(c03Templates))])
	}
	r := runBoth(g.src, g.values)
	verif.Observe("nblocks", len(r.Real.Blocks))
	verif.Observe("err", errClass(r.Real.Err))
	r.assertAgree("blocks")
	if r.Real.Err != nil {
		verif.Reach("runtime-error")
	} else {
		verif.Reach("ok")
	}
}

// C03_Curated: corners — blocks completed before a runtime error are still
// returned, duplicate child key, TYPE/NAME in nested blocks, variables never
// appear as fields, empty blocks, deep nesting.
func C03_Curated() {
	progs := []string{
		"def a { f = 1001 }\ndef b { g = 1002 }\nprint 1/0\ndef c { }\n",
		"def a { f = 1001 }\ndef b { g = 1002 / 0 }\ndef c { }\n",
		"def p { def c { f = 1001 }\n def c { f = 1002 } }\n",
		"def p { def c \"x\" { f = 1001 }\n def c \"x\" { f = 1002 } }\n",
		"def p { def c \"x\" { f = 1001 }\n def c \"y\" { f = 1002 }\n def c { f = 1003 } }\n",
		"def p \"pn\" { a = TYPE\n b = NAME\n def q \"qn\" { a = TYPE\n b = NAME } c = NAME }\n",
		"def p { var v = 1001\n var w = v\n def q { var z = w\n f = z } }\n",
		"def p { }\ndef p { }\ndef p \"\" { }\n",
		"def a { def b { def c { def d { f = 1001 } g = 1002 } } h = 1003 }\n",
		"def a \"x\\ty\" { f = 1001 }\n",
		"var s = \"t\"\ndef a { f = s + 1001\n g = s * 2\n h = not s\n k = nil\n l = 1.5\n m = true }\n",
		"def head { h = 1001 }\ndef srv \"s1\" { p = 1002 }\ndef mid { }\ndef srv \"s2\" { p = 1003 }\nbind srv:all -> slice\n",
		"def head { h = 1001 }\ndef srv \"s1\" { p = 1002 }\ndef mid { }\nbind srv -> struct\ndef tail { }\n",
		"def a { b = 1001\n def b { x = 1002 } }\n",
		"def a { def b { x = 1002 }\n def c { b = 1001 } }\n",
		"def t { var v = 1001 }\ndef u { v = 1002\n w = v }\n",
		"def p \"pn\" { TYPE = 1001\n def q { x = TYPE\n y = NAME } z = TYPE }\n",
		"def p { def zone \"example.org.\" { a = 1001 }\n def zone \"example.org\" { a = 1002 }\n def zone \".\" { a = 1003 } }\n",
		"def zone \"a.\" { a = 1001 }\ndef zone \"a\" { a = 1002 }\ndef p { def q \"\" { a = 1003 }\n def q \".\" { } }\n",
	}
	src := progs[verif.Choice("prog", len(progs))]
	values := map[string]any{}
	for _, text := range []string{"1001", "1002", "1003"} {
		if containsStr(src, text) {
			values[text] = verif.Int("k" + text)
		}
	}
	r := runBoth(src, values)
	verif.Observe("nblocks", len(r.Real.Blocks))
	verif.Observe("err", errClass(r.Real.Err))
	r.assertAgree("curated")
	verif.Reach("compared")
}

// C03_ChildNames: two children of one type whose names are any strings of
// 0..2 bytes over {'.', 'a', '_'}: they clash (runtime error) exactly when
// the names are equal, otherwise both are stored under their own keys.
func C03_ChildNames() {
	n1 := verif.Bytes("n1", verif.Choice("len1", 3))
	n2 := verif.Bytes("n2", verif.Choice("len2", 3))
	for _, c := range append(append([]byte{}, n1...), n2...) {
		verif.Assume(c == '.' || c == 'a' || c == '_')
	}
	src := "def p {\n def c \"" + string(n1) + "\" {\n f = 1\n }\n def c \"" + string(n2) + "\" {\n f = 2\n }\n}\n"
	r := runBoth(src, nil)
	verif.Observe("err", errClass(r.Real.Err))
	r.assertAgree("childnames")
	verif.Reach("compared")
}

// C03_Wide: CONCRETE INSTANCES - enough blocks or fields that the constant
// indices in DEFBLOCK / SETFIELD operands cross the one-byte varint range.
func C03_Wide() {
	src := ""
	if verif.Choice("what", 2) == 0 {
		n := []int{117, 119, 121, 125, 140}[verif.Choice("n", 5)]
		for i := 0; i < n; i++ {
			src += "def srv \"n" + itoa(i) + "\" {\n port = " + itoa(8000+i) + "\n}\n"
		}
	} else {
		n := []int{236, 239, 241, 245, 260}[verif.Choice("n", 5)]
		src = "def big \"b\" {\n"
		for i := 0; i < n; i++ {
			src += " f" + itoa(i) + " = true\n"
		}
		src += "}\ndef after {\n x = 1\n}\n"
	}
	r := runBoth(src, nil)
	verif.Observe("nblocks", len(r.Real.Blocks))
	verif.Observe("err", errClass(r.Real.Err))
	r.assertAgree("wide")
	verif.Reach("compared")
}

// C03_Deep: CONCRETE SHAPES - blocks nested 1..16 deep (16 is the documented
// limit of the block stack), a field with a symbolic value at every level, a
// sibling after the deepest block: the whole tree is reproduced.
func C03_Deep() {
	n := []int{1, 2, 3, 8, 15, 16}[verif.Choice("depth", 6)]
	named := verif.Choice("named", 2) == 1
	src := ""
	for i := 0; i < n; i++ {
		src += "def b" + itoa(i)
		if named {
			src += " \"n" + itoa(i) + "\""
		}
		src += " {\n f" + itoa(i) + " = 1001\n"
	}
	for i := 0; i < n; i++ {
		src += " t = TYPE\n}\n"
	}
	src += "def after {\n x = 1002\n}\n"
	r := runBoth(src, map[string]any{"1001": verif.Int("a"), "1002": verif.Int("b")})
	verif.Observe("nblocks", len(r.Real.Blocks))
	verif.Observe("err", errClass(r.Real.Err))
	r.assertAgree("deep")
	verif.Reach("compared")
}
