package props

import (
	"bytes"
	"strings"

	"github.com/wkhere/bcl"

	"verifharness/refbcl"
	"verifharness/symio"
	"verifharness/verif"
)

// C08_LineColAt: the offset -> (line, column) kernel against its
// specification for a symbolic strictly increasing newline table of n <= 6
// (8 thorough) entries and any pos >= 0.
func C08_LineColAt() {
	n := verif.Choice("n", 7+2*verif.Tier())
	lfs := make([]int, n)
	prev := -1
	for i := range lfs {
		lfs[i] = verif.Int("lf")
		verif.Assume(lfs[i] > prev && lfs[i] < 1<<40)
		prev = lfs[i]
	}
	pos := verif.Int("pos")
	verif.Assume(pos >= 0 && pos < 1<<40)
	line, col := bcl.VerifLineColAt(lfs, pos)
	wantLine, last := 1, -1
	for _, lf := range lfs {
		if lf < pos {
			wantLine++
			last = lf
		}
	}
	verif.Observe("line", line)
	verif.Assert(line == wantLine, "line = 1 + newlines before pos")
	verif.Assert(col == pos-last, "column = distance from the preceding newline")
	verif.Reach("done")
}

// C08_LineTable: the table built chunk by chunk equals the newline offsets of
// the concatenation (1..2 chunks, 3 thorough, of 0..2 symbolic bytes).
func C08_LineTable() {
	nch := 1 + verif.Choice("chunks", 2+verif.Tier())
	var chunks []string
	whole := ""
	for i := 0; i < nch; i++ {
		s := verif.String("chunk", verif.Choice("len", 3))
		chunks = append(chunks, s)
		whole += s
	}
	got := bcl.VerifLineCalcAdd(chunks)
	want := refbcl.NewlineOffsets(whole)
	same := len(got) == len(want)
	if same {
		for i := range got {
			same = same && got[i] == want[i]
		}
	}
	verif.Observe("n", len(got))
	verif.Assert(same, "line table = newline offsets of the source")
	verif.Reach("done")
}

// C08_TokenEnds: every token's recorded offset equals the reference
// tokenizer's end offset, under a split of the input.
func C08_TokenEnds() {
	ctx := verif.Choice("context", 3)
	p := verif.Bytes("payload", 2)
	pre, suf := c07Contexts[ctx][0], c07Contexts[ctx][1]
	src := pre + string(p) + suf
	k := len(pre) + verif.Choice("cut", 3)
	real := bcl.VerifLex([]string{src[:k], src[k:]})
	ref := refbcl.Tokens(src)
	verif.Observe("ntok", len(ref))
	// the real stream has an extra tFAIL after an error token
	n := len(ref)
	verif.Assert(len(real) >= n, "token count")
	if len(real) < n {
		return
	}
	for i := 0; i < n; i++ {
		if ref[i].Kind == refbcl.KErr {
			if strings.Contains(ref[i].Msg, "unterminated") {
				break // offset of an unterminated string is not specified
			}
			verif.Assert(real[i].Err != "" && real[i].Pos == ref[i].End, "lexical error offset")
			break
		}
		verif.Assert(real[i].Pos == ref[i].End, "token end offset")
		if ref[i].Kind != refbcl.KEOF {
			verif.Assert(real[i].Val == ref[i].Text, "token text ends at its offset")
		}
	}
	verif.Reach("done")
}

var c08Faulty = []string{
	"var x = 1 print x +",                    // at end
	"print ( 1 + 2",                          // at end, missing )
	"var x = 1 print x x",                    // expected statement at second x
	"def t { f = 1 } bind t : 2 -> struct",   // selector
	"def t { f = 1 } bind t : all -> struct", // all needs slice
	"var x = 1 var x = 2",                    // redeclaration
	"print y",                                // undefined
	"var x = 1 eval 1 = x",                   // invalid assignment target
	"print 08",                               // invalid literal
	"print 1 $",                              // lexical: unknown char
	"def t f = 1 }",                          // expected {
	"var = 1",                                // expected variable name
	"eval 1 + $ print 2",                     // lexical failure where an operand is due
	"var x = 1 print ( x $ ) print 3",        // lexical failure inside parentheses
}

var c08Runtime = []string{
	"var z = 0 print 10 / z",
	"def t { f = 1 + \"s\" }",
	"def t { g = nosuch }",
	"def p { def c { } def c { } }",
	"def t { } bind u -> struct",
	"def t { } def t { } bind t -> struct",
	"def t { } bind t -> struct bind t -> slice print 1 / 0",
	"print - \"s\"",
	"var a = 1 print ( a < \"x\" ) and 2",
	"def t { } bind u -> struct print 1 print 2",
	"def t { } def t { } bind t:1 -> slice def z { }",
}

// render joins tokens with single spaces except in two gaps that get a
// symbolic whitespace separator (the solver decides which bytes are newlines).
func c08Render(tokens []string) string {
	n := len(tokens)
	g1 := verif.Choice("gap1", n)
	g2 := verif.Choice("gap2", n)
	sep := func(name string) string {
		m := 1 + verif.Choice(name+"len", 2)
		p := verif.Bytes(name, m)
		for _, b := range p {
			verif.Assume(b == ' ' || b == '\n' || b == '\r' || b == '\t')
		}
		return string(p)
	}
	s1 := sep("sep1")
	s2 := ""
	if g2 != g1 {
		if verif.Tier() == 1 {
			s2 = sep("sep2")
		} else {
			// quick: the second gap is a concrete line break
			s2 = "\n"
		}
	}
	out := ""
	for i, t := range tokens {
		switch {
		case i == g1:
			out += s1
		case i == g2:
			out += s2
		case i > 0:
			out += " "
		}
		out += t
	}
	return out
}

func c08FirstLine(s string) string {
	if i := strings.Index(s, "\n"); i >= 0 {
		return s[:i]
	}
	return s
}

func c08Loc(src string, end int) string {
	l, c := refbcl.LineCol(src, end)
	return itoa(l) + ":" + itoa(c)
}

// C08_CompileDiag: the first diagnostic of a faulty program points just after
// the offending token (known from the reference parser), quotes the source
// text ending there, and says 'at end' exactly at the end of input; layout
// around the tokens is symbolic.
func C08_CompileDiag() {
	prog := c08Faulty[verif.Choice("prog", len(c08Faulty))]
	src := c08Render(strings.Split(prog, " "))
	out, log := &symio.Writer{}, &symio.Writer{}
	_, err := bcl.Parse([]byte(src), "src", bcl.OptOutput(out), bcl.OptLogger(log))
	verif.Assert(err != nil, "rejected")
	toks := refbcl.Tokens(src)
	rprog, syn := refbcl.ParseProgram(toks)
	var end int
	var want string
	switch {
	case syn != nil:
		t := toks[syn.Tok]
		end = t.End
		switch t.Kind {
		case refbcl.KEOF:
			want = " error at end: "
		case refbcl.KErr:
			want = " error: "
		default:
			want = " error at '" + t.Text + "': "
		}
	default:
		st := refbcl.Check(rprog)
		verif.Assert(len(st) > 0, "reference rejects too")
		if len(st) == 0 {
			return
		}
		end = st[0].End
		want = " error at '"
	}
	first := c08FirstLine(log.String())
	verif.Observe("first", first)
	// 'at end' designates the end of input and nothing else
	endLoc := "line " + c08Loc(src, len(src)) + ":"
	for _, l := range strings.Split(log.String(), "\n") {
		if strings.Contains(l, " error at end: ") {
			verif.Assert(strings.HasPrefix(l, endLoc), "'at end' only at the end of input")
		}
	}
	verif.Assert(strings.HasPrefix(first, "line "+c08Loc(src, end)+":"+want), "first diagnostic designates the byte after the offending token and quotes it")
	verif.Reach("checked")
}

// C08_RuntimePos: runtime errors and warnings carry the position after the
// last token of the failing operation; the stored line table equals the
// newline offsets; all of it survives dump and load.
func C08_RuntimePos() {
	prog := c08Runtime[verif.Choice("prog", len(c08Runtime))]
	src := c08Render(strings.Split(prog, " "))
	r := runBoth(src, nil)
	verif.Assert(r.ParseErr == nil && r.RefAccepts(), "accepted")
	if r.ParseErr != nil || !r.RefAccepts() {
		return
	}
	verif.Assert(r.Ref.Err != nil && r.Real.Err != nil, "both fail at run time")
	if r.Ref.Err == nil || r.Real.Err == nil {
		return
	}
	msg := r.Real.Err.Error()
	verif.Observe("msg", msg)
	verif.Assert(strings.HasPrefix(msg, "runtime error: line "+c08Loc(src, r.Ref.ErrPC)+": "), "runtime error position")
	// warnings: position of the repeated bind statement
	if r.Ref.Warnings > 0 {
		verif.Assert(strings.HasPrefix(r.Log, "WARNING: line "), "warning has a position")
		verif.Reach("warning")
	}
	// line table
	lfs := bcl.VerifLfs(r.Prog)
	want := refbcl.NewlineOffsets(src)
	same := len(lfs) == len(want)
	if same {
		for i := range lfs {
			same = same && lfs[i] == want[i]
		}
	}
	verif.Assert(same, "stored line table = newline offsets of the source")
	// dump and load: same error text
	var d bytes.Buffer
	if r.Prog.Dump(&d) != nil {
		panic("dump failed")
	}
	out2, log2 := &symio.Writer{}, &symio.Writer{}
	p2, err := bcl.LoadProg(bytes.NewReader(d.Bytes()), "src", bcl.OptOutput(out2), bcl.OptLogger(log2))
	verif.Assert(err == nil, "dump loads")
	if err == nil {
		_, _, err2 := bcl.Execute(p2)
		verif.Assert(errText(err2) == msg, "same runtime error text after dump and load")
		verif.Assert(log2.String() == r.Log, "same warnings after dump and load")
	}
	verif.Reach("checked")
}

// C08_BigOffsets: concrete instances — sources padded so that the failing
// offset crosses the varint size classes 240/241, 2287/2288, 67823/67824 and
// the 4096-byte page.
func C08_BigOffsets() {
	targets := []int{239, 240, 241, 2286, 2287, 2288, 4094, 4095, 4096, 4097}
	if verif.Tier() == 1 {
		targets = append(targets, 67822, 67823, 67824)
	}
	t := targets[verif.Choice("target", len(targets))]
	stmt := "print 1/0"
	var sb strings.Builder
	line := "# 0123456789 0123456789 0123456789\n"
	if verif.Choice("blank", 2) == 1 {
		// blank lines only: far more line feeds than code bytes
		line = "\n"
	}
	for sb.Len()+len(line) <= t-len(stmt) {
		sb.WriteString(line)
	}
	for sb.Len() < t-len(stmt) {
		sb.WriteString(" ")
	}
	src := sb.String() + stmt + "\n"
	viaFile := verif.Choice("file", 2) == 1
	out, log := &symio.Writer{}, &symio.Writer{}
	var p *bcl.Prog
	var err error
	if viaFile {
		p, err = bcl.ParseFile(&symio.File{Data: []byte(src), FileName: "src"}, bcl.OptOutput(out), bcl.OptLogger(log))
	} else {
		p, err = bcl.Parse([]byte(src), "src", bcl.OptOutput(out), bcl.OptLogger(log))
	}
	if err != nil {
		panic("big offsets: rejected")
	}
	_, _, xerr := bcl.Execute(p)
	verif.Observe("msg", errText(xerr))
	verif.Assert(strings.HasPrefix(errText(xerr), "runtime error: line "+c08Loc(src, t)+": "), "runtime error position at a large offset")
	var d bytes.Buffer
	if p.Dump(&d) != nil {
		panic("dump failed")
	}
	p2, err := bcl.LoadProg(bytes.NewReader(d.Bytes()), "src", bcl.OptOutput(out), bcl.OptLogger(log))
	verif.Assert(err == nil, "dump loads")
	if err == nil {
		_, _, err2 := bcl.Execute(p2)
		verif.Assert(errText(err2) == errText(xerr), "same after dump and load")
	}
	verif.Reach("checked")
}

// C08_SplitPos: positions after a chunk boundary inside a multi-byte
// character: the runtime error position and the stored line table must be
// those of the unsplit source.
func C08_SplitPos() {
	p := verif.Bytes("payload", 2)
	ctx := verif.Choice("context", 2)
	pre := []string{"# c", "print \"a"}[ctx]
	suf := []string{"\nprint 1\nprint 2/0\n", "b\"\nprint 1\nprint 2/0\n"}[ctx]
	src := pre + string(p) + suf
	k := len(pre) + 1
	f := &symio.File{Data: []byte(src), Script: []symio.Step{{N: k}}, FileName: "src"}
	out, log := &symio.Writer{}, &symio.Writer{}
	prog, err := bcl.ParseFile(f, bcl.OptOutput(out), bcl.OptLogger(log))
	toks := refbcl.Tokens(src)
	_, syn := refbcl.ParseProgram(toks)
	verif.Observe("rejected", err != nil)
	verif.Assert((err != nil) == (syn != nil), "same acceptance as the reference")
	if err != nil || syn != nil {
		verif.Reach("rejected")
		return
	}
	lfs := bcl.VerifLfs(prog)
	want := refbcl.NewlineOffsets(src)
	same := len(lfs) == len(want)
	if same {
		for i := range lfs {
			same = same && lfs[i] == want[i]
		}
	}
	verif.Assert(same, "stored line table = newline offsets of the source")
	_, _, xerr := bcl.Execute(prog)
	// the failing operation ends just before the final newline
	verif.Assert(strings.HasPrefix(errText(xerr), "runtime error: line "+c08Loc(src, len(src)-1)+": "), "runtime error position after a split character")
	verif.Reach("checked")
}

// C08_WidePos: CONCRETE INSTANCES - a runtime error after n declarations, so
// that the instructions before the failing one carry operands of two varint
// bytes (constant index and slot above 240): the position is still that of
// the failing token, also after dump and load.
func C08_WidePos() {
	n := []int{200, 239, 240, 241, 242, 243, 260, 300}[verif.Choice("n", 8)]
	src := ""
	for i := 0; i < n; i++ {
		src += "var v" + itoa(i) + " = " + itoa(5000+i) + "\n"
	}
	last := "v" + itoa(n-1)
	src += []string{
		"print " + last + " + " + last + " / 0\n",
		"print \"x\" - " + last + "\nprint 1\n",
		"def t {\n f = " + last + "\n g = nosuch\n}\n",
		"print " + last + "\n\n  print 7 + " + last + " * (3 / (" + last + " - " + last + "))\n",
	}[verif.Choice("tail", 4)]
	r := runBoth(src, nil)
	verif.Assert(r.ParseErr == nil && r.RefAccepts(), "accepted")
	if r.ParseErr != nil || !r.RefAccepts() {
		return
	}
	verif.Assert(r.Ref.Err != nil && r.Real.Err != nil, "both fail at run time")
	if r.Ref.Err == nil || r.Real.Err == nil {
		return
	}
	msg := r.Real.Err.Error()
	verif.Observe("msg", msg)
	verif.Assert(strings.HasPrefix(msg, "runtime error: line "+c08Loc(src, r.Ref.ErrPC)+": "), "runtime error position")
	verif.Assert(len(bcl.VerifPositions(r.Prog)) == len(bcl.VerifCode(r.Prog)), "one position per code byte")
	var d bytes.Buffer
	if r.Prog.Dump(&d) != nil {
		panic("dump failed")
	}
	out2, log2 := &symio.Writer{}, &symio.Writer{}
	p2, err := bcl.LoadProg(bytes.NewReader(d.Bytes()), "src", bcl.OptOutput(out2), bcl.OptLogger(log2))
	verif.Assert(err == nil, "dump loads")
	if err == nil {
		_, _, err2 := bcl.Execute(p2)
		verif.Assert(errText(err2) == msg, "same runtime error text after dump and load")
	}
	verif.Reach("checked")
}

// C08_TwoDiags: two faulty statements on different lines read through
// ParseFile, the first one followed on its own line by more tokens than the
// lexer runs ahead, with a read boundary at any place of that line or after
// it: both diagnostics are those of Parse on the whole text (line table
// lookups between which the table grows).
func C08_TwoDiags() {
	first := []string{"print )", "var = 1", "eval 1 +"}[verif.Choice("first", 3)]
	ntail := []int{0, 8, 14, 20, 40}[verif.Choice("tail", 5)]
	line1 := first
	for i := 0; i < ntail; i++ {
		line1 += " " + itoa(i%7)
	}
	src := "var a = 1\n" + line1 + "\nprint a\n  print (\nvar b = 2\nprint b b\n"
	lo := len("var a = 1\n")
	cuts := []int{lo + 3, lo + len(first) + 2, lo + len(line1)/2, lo + len(line1) - 1, lo + len(line1), lo + len(line1) + 1, lo + len(line1) + 9}
	cut := cuts[verif.Choice("cut", len(cuts))]
	w := c07Whole([]byte(src))
	var script []symio.Step
	if verif.Choice("more", 2) == 0 {
		script = []symio.Step{{N: cut}}
	} else {
		script = []symio.Step{{N: cut}, {N: 5}, {N: 0}, {N: 7}}
	}
	f := c07File(&symio.File{Data: []byte(src), Script: script, FileName: "file"})
	verif.Assert(w.Err != nil && f.Err != nil, "both rejected")
	verif.Observe("log", f.Log)
	verif.Assert(f.Log == w.Log, "same diagnostics (positions included) from ParseFile and Parse")
	d := c17DiagLines(w.Log)
	verif.Assert(len(d) >= 3 && strings.HasPrefix(d[len(d)-1], "line 6:"), "at least one diagnostic per faulty statement, the last one on the last line")
	verif.Reach("checked")
}
