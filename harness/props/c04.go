package props

import (
	"strings"

	"verifharness/verif"
)

var c04Binds = []string{
	"bind t -> struct", "bind t:1 -> struct", "bind t:first -> struct", "bind t:last -> struct",
	"bind t -> slice", "bind t:1 -> slice", "bind t:first -> slice", "bind t:last -> slice", "bind t:all -> slice",
	"bind t:all -> struct", "bind t:2 -> struct", "bind t:some -> slice", "bind t -> map", "bind t:first -> structs",
}

// C04_Bind: 0..3 candidate blocks and 0..2 foreign blocks before the bind
// statement, every selector x target spelling (valid and invalid), optional
// block after it, optional second bind.
func C04_Bind() {
	g := &c02Gen{values: map[string]any{}}
	nb := verif.Choice("candidates", 4)
	nf := verif.Choice("foreign", 2+verif.Tier())
	foreignFirst := verif.Choice("order", 2) == 1
	emitForeign := func() {
		for i := 0; i < nf; i++ {
			g.src += "def u {\n"
			g.stmt("f = K")
			g.src += "}\n"
		}
	}
	if foreignFirst {
		emitForeign()
	}
	for i := 0; i < nb; i++ {
		g.src += []string{"def t \"a\" {\n", "def t \"b\" {\n", "def t {\n"}[i]
		g.stmt("f = K")
		g.src += "}\n"
	}
	if !foreignFirst {
		emitForeign()
	}
	g.src += c04Binds[verif.Choice("bind", len(c04Binds))] + "\n"
	if verif.Choice("after", 2) == 1 {
		g.src += "def t \"late\" {\n"
		g.stmt("f = K")
		g.src += "}\n"
	}
	switch verif.Choice("second", 4) {
	case 1:
		g.src += "bind t:last -> slice\n"
	case 2:
		g.src += "bind u -> struct\n"
	case 3:
		// three binds: every bind after the first warns
		g.src += "bind t:last -> slice\nbind t:first -> struct\nbind t:first -> slice\n"
	}
	r := runBoth(g.src, g.values)
	verif.Observe("rejected", r.ParseErr != nil)
	verif.Observe("err", errClass(r.Real.Err))
	verif.Observe("log", r.Log)
	r.assertAgree("bind")
	switch {
	case r.ParseErr != nil:
		verif.Reach("rejected")
	case r.Real.Err != nil:
		verif.Reach("runtime-error")
	case r.Real.Binding == nil:
		verif.Reach("no-binding")
	default:
		verif.Reach("bound")
	}
}

// C04_NoBind: without a bind statement the binding is nil.
func C04_NoBind() {
	src := "def t { f = 1001 }\ndef u { }\n"
	r := runBoth(src, map[string]any{"1001": verif.Int("k")})
	verif.Assert(r.ParseErr == nil && r.Real.Err == nil && r.Real.Binding == nil, "nil binding without bind")
	r.assertAgree("nobind")
	verif.Reach("compared")
}

// C04_Interleaved: candidates and foreign blocks interleaved; the returned
// []Block must stay intact whatever the bind selects.
func C04_Interleaved() {
	g := &c02Gen{values: map[string]any{}}
	g.src += "def head {\n"
	g.stmt("h = K")
	g.src += "}\ndef t \"s1\" {\n"
	g.stmt("f = K")
	g.src += "}\ndef mid {\n}\ndef t \"s2\" {\n"
	g.stmt("f = K")
	g.src += "}\n"
	g.src += c04Binds[verif.Choice("bind", 9)] + "\n"
	g.src += "def tail {\n}\n"
	r := runBoth(g.src, g.values)
	verif.Observe("err", errClass(r.Real.Err))
	r.assertAgree("interleaved")
	verif.Reach("compared")
}

// C04_ManyTypes: CONCRETE INSTANCES - the bound type's constant index crosses
// the one-byte varint range (239..300 other types defined first).
func C04_ManyTypes() {
	n := []int{239, 240, 241, 255, 256, 300}[verif.Choice("n", 6)]
	src := ""
	for i := 0; i < n; i++ {
		src += "def t" + itoa(i) + " {\n}\n"
	}
	src += "def b \"x\" {\n f = 1\n}\n"
	src += c04Binds[verif.Choice("bind", 9)] + "\n"
	src = strings.Replace(src, "bind t", "bind b", 1)
	r := runBoth(src, nil)
	verif.Observe("err", errClass(r.Real.Err))
	r.assertAgree("manytypes")
	verif.Reach("compared")
}

// C04_Inside: a bind statement written inside a block (legal: bind is a
// declaration): candidates are the toplevel blocks completed so far - the
// enclosing, unfinished block is not one - and the binding is recorded as at
// toplevel; then a third and fourth bind (one warning per repeated bind).
func C04_Inside() {
	g := &c02Gen{values: map[string]any{}}
	g.src += "def t \"s1\" {\n"
	g.stmt("f = K")
	g.src += "}\n"
	depth := verif.Choice("depth", 3) // 0: toplevel, 1: inside a t block, 2: inside a child
	typ := []string{"t", "u"}[verif.Choice("enclosing", 2)]
	switch depth {
	case 1:
		g.src += "def " + typ + " \"s2\" {\n"
		g.stmt("f = K")
	case 2:
		g.src += "def " + typ + " \"s2\" {\n def t \"inner\" {\n"
	}
	bind := c04Binds[verif.Choice("bind", 9)]
	g.src += bind + "\n"
	switch depth {
	case 1:
		g.stmt("g = K")
		g.src += "}\n"
	case 2:
		g.src += " }\n}\n"
	}
	for i, n := 0, verif.Choice("more", 3); i < n; i++ {
		g.src += bind + "\n"
	}
	g.src += "def t \"s3\" {\n}\n"
	r := runBoth(g.src, g.values)
	verif.Observe("err", errClass(r.Real.Err))
	r.assertAgree("inside")
	verif.Reach("compared")
}
