// Package symio provides scripted readers, files and writers for harnesses.
package symio

import "io"

// Writer collects everything written to it.
type Writer struct {
	Buf []byte
}

func (w *Writer) Write(p []byte) (int, error) {
	w.Buf = append(w.Buf, p...)
	return len(p), nil
}

func (w *Writer) String() string { return string(w.Buf) }

// Step is one scripted Read result: deliver up to N bytes, then return Err.
type Step struct {
	N   int
	Err error
}

// File is a bcl.FileInput (io.ReadCloser + Name) driven by a script. After
// the script is exhausted it delivers the remaining data in one read and then
// (0, io.EOF).
type File struct {
	Data   []byte
	Script []Step
	pos    int
	step   int
	Reads  int
	Closes int
	// ReadsAfter counts reads that started after Mark was called.
	FileName string
	errDelivered bool
}

func (f *File) Name() string {
	if f.FileName == "" {
		return "file"
	}
	return f.FileName
}

func (f *File) Read(p []byte) (int, error) {
	f.Reads++
	if f.step < len(f.Script) {
		s := f.Script[f.step]
		f.step++
		n := s.N
		if n > len(f.Data)-f.pos {
			n = len(f.Data) - f.pos
		}
		if n > len(p) {
			n = len(p)
		}
		copy(p, f.Data[f.pos:f.pos+n])
		f.pos += n
		if s.Err != nil && s.Err != io.EOF {
			f.errDelivered = true
		}
		return n, s.Err
	}
	if f.pos >= len(f.Data) {
		return 0, io.EOF
	}
	n := copy(p, f.Data[f.pos:])
	f.pos += n
	return n, nil
}

func (f *File) Close() error {
	f.Closes++
	return nil
}

// Pos is the number of bytes delivered so far.
func (f *File) Pos() int { return f.pos }

// Reader delivers Data in pieces of the given sizes, then the rest, then EOF.
type Reader struct {
	Data  []byte
	Sizes []int
	pos   int
	i     int
}

func (r *Reader) Read(p []byte) (int, error) {
	if r.pos >= len(r.Data) {
		return 0, io.EOF
	}
	n := len(r.Data) - r.pos
	if r.i < len(r.Sizes) {
		if r.Sizes[r.i] < n {
			n = r.Sizes[r.i]
		}
		r.i++
	}
	if n > len(p) {
		n = len(p)
	}
	copy(p, r.Data[r.pos:r.pos+n])
	r.pos += n
	return n, nil
}

// ChunkReader delivers Data in reads of at most Chunk bytes.
type ChunkReader struct {
	Data  []byte
	Chunk int
	pos   int
}

func (r *ChunkReader) Read(p []byte) (int, error) {
	if r.pos >= len(r.Data) {
		return 0, io.EOF
	}
	n := r.Chunk
	if n > len(r.Data)-r.pos {
		n = len(r.Data) - r.pos
	}
	if n > len(p) {
		n = len(p)
	}
	copy(p, r.Data[r.pos:r.pos+n])
	r.pos += n
	return n, nil
}

// ErrDelivered reports whether a scripted non-EOF error has been returned.
func (f *File) ErrDelivered() bool { return f.errDelivered }
