package refbcl

import "strconv"

// ---- abstract syntax ----

type Expr interface{}

type Lit struct {
	Kind int // KInt, KFloat, KStr, or KKeyword for true/false/nil
	Text string
	End  int
}
type Ident struct {
	Name string
	End  int
}
type Assign struct {
	Name    string
	NameEnd int
	E       Expr
}
type Unary struct {
	Op string // "-", "+", "not"
	E  Expr
}
type Binary struct {
	Op   string
	L, R Expr
}
type Paren struct {
	E   Expr
	End int
}

type Stmt interface{}

type VarStmt struct {
	Name    string
	NameEnd int
	Init    Expr // nil if absent
}
type EvalStmt struct{ E Expr }
type PrintStmt struct{ E Expr }
type ExprStmt struct{ E Expr }
type DefStmt struct {
	Type    string
	Name    string // unquoted
	HasName bool
	Body    []Stmt
	End     int // end of the closing brace
}
type BindStmt struct {
	Type   string
	Sel    string // "", "1", "first", "last", "all"
	Target string // "struct" | "slice"
	End    int
}

type Program struct {
	Stmts []Stmt
	// Undocumented is set when the source uses a construct whose grouping the
	// documentation does not fix (not in operand position of an arithmetic or
	// comparison operator, a sign applied to not).
	Undocumented bool
}

// SyntaxError describes the first rejection.
type SyntaxError struct {
	Msg   string
	Tok   int // index of the offending token
	Fatal bool // lexical failure
}

func ExprEnd(e Expr) int {
	switch x := e.(type) {
	case *Lit:
		return x.End
	case *Ident:
		return x.End
	case *Assign:
		return ExprEnd(x.E)
	case *Unary:
		return ExprEnd(x.E)
	case *Binary:
		return ExprEnd(x.R)
	case *Paren:
		return x.End
	}
	return -1
}

// ---- recursive descent parser over the documented grammar ----

type parser struct {
	toks  []Token
	pos   int
	err   *SyntaxError
	undoc bool
}

func (p *parser) peek() Token { return p.toks[p.pos] }

func (p *parser) fail(msg string) {
	if p.err == nil {
		t := p.peek()
		p.err = &SyntaxError{Msg: msg, Tok: p.pos, Fatal: t.Kind == KErr}
	}
}

func (p *parser) isPunct(s string) bool {
	t := p.peek()
	return t.Kind == KPunct && t.Text == s
}

func (p *parser) isKw(s string) bool {
	t := p.peek()
	return t.Kind == KKeyword && t.Text == s
}

func (p *parser) next() Token {
	t := p.toks[p.pos]
	if t.Kind != KEOF && t.Kind != KErr {
		p.pos++
	}
	return t
}

// ParseProgram parses a token stream. On rejection the error is returned and
// the program is nil.
func ParseProgram(toks []Token) (*Program, *SyntaxError) {
	p := &parser{toks: toks}
	prog := &Program{}
	for p.err == nil && p.peek().Kind != KEOF {
		s := p.decl(0)
		if p.err != nil {
			break
		}
		prog.Stmts = append(prog.Stmts, s)
		if p.isPunct(";") {
			p.next()
		}
	}
	if p.err != nil {
		return nil, p.err
	}
	prog.Undocumented = p.undoc
	return prog, nil
}

func (p *parser) decl(depth int) Stmt {
	if p.isKw("var") {
		p.next()
		t := p.peek()
		if t.Kind != KIdent {
			p.fail("expected variable name")
			return nil
		}
		p.next()
		s := &VarStmt{Name: t.Text, NameEnd: t.End}
		if p.isPunct("=") {
			p.next()
			s.Init = p.expr()
		}
		return s
	}
	return p.stmt(depth)
}

func (p *parser) stmt(depth int) Stmt {
	switch {
	case p.isKw("print"):
		p.next()
		return &PrintStmt{E: p.expr()}
	case p.isKw("eval"):
		p.next()
		return &EvalStmt{E: p.expr()}
	case p.isKw("def"):
		p.next()
		return p.def(depth)
	case p.isKw("bind"):
		p.next()
		return p.bind()
	}
	if depth > 0 {
		return &ExprStmt{E: p.expr()}
	}
	p.fail("expected statement")
	return nil
}

func (p *parser) def(depth int) Stmt {
	t := p.peek()
	if t.Kind != KIdent {
		p.fail("expected block type")
		return nil
	}
	p.next()
	d := &DefStmt{Type: t.Text}
	if p.peek().Kind == KStr {
		st := p.next()
		name, err := strconv.Unquote(st.Text)
		if err != nil {
			p.pos--
			p.fail("invalid block name")
			return nil
		}
		d.Name, d.HasName = name, true
	}
	if !p.isPunct("{") {
		p.fail("expected {")
		return nil
	}
	p.next()
	for p.err == nil && !p.isPunct("}") && p.peek().Kind != KEOF && p.peek().Kind != KErr {
		s := p.decl(depth + 1)
		if p.err != nil {
			return nil
		}
		d.Body = append(d.Body, s)
		if p.isPunct(";") {
			p.next()
		}
	}
	if p.err != nil {
		return nil
	}
	if !p.isPunct("}") {
		p.fail("expected }")
		return nil
	}
	d.End = p.next().End
	return d
}

func (p *parser) bind() Stmt {
	t := p.peek()
	if t.Kind != KIdent {
		p.fail("expected block type")
		return nil
	}
	p.next()
	b := &BindStmt{Type: t.Text}
	if p.isPunct(":") {
		p.next()
		s := p.peek()
		switch {
		case s.Kind == KInt && s.Text == "1":
			b.Sel = "1"
		case s.Kind == KIdent && (s.Text == "first" || s.Text == "last" || s.Text == "all"):
			b.Sel = s.Text
		default:
			p.fail("expected 1, first, last or all")
			return nil
		}
		p.next()
	}
	if !p.isPunct("->") {
		p.fail("expected ->")
		return nil
	}
	p.next()
	g := p.peek()
	if g.Kind != KIdent || (g.Text != "struct" && g.Text != "slice") {
		p.fail("expected struct or slice")
		return nil
	}
	if b.Sel == "all" && g.Text != "slice" {
		p.fail("all needs slice")
		return nil
	}
	p.next()
	b.Target, b.End = g.Text, g.End
	return b
}

// expr := IDENT '=' expr | or
func (p *parser) expr() Expr {
	if p.err != nil {
		return nil
	}
	t := p.peek()
	if t.Kind == KIdent && p.toks[p.pos+1].Kind == KPunct && p.toks[p.pos+1].Text == "=" {
		p.next()
		p.next()
		return &Assign{Name: t.Text, NameEnd: t.End, E: p.expr()}
	}
	e := p.or()
	if p.err == nil && p.isPunct("=") {
		p.fail("invalid assignment target")
		return nil
	}
	return e
}

func (p *parser) or() Expr {
	e := p.and()
	for p.err == nil && p.isKw("or") {
		p.next()
		e = &Binary{Op: "or", L: e, R: p.and()}
	}
	return e
}

func (p *parser) and() Expr {
	e := p.not(true)
	for p.err == nil && p.isKw("and") {
		p.next()
		e = &Binary{Op: "and", L: e, R: p.not(true)}
	}
	return e
}

// not := 'not' not | eq. documented reports whether this position is one
// where the documentation places not.
func (p *parser) not(documented bool) Expr {
	if p.err != nil {
		return nil
	}
	if p.isKw("not") {
		p.next()
		if !documented {
			p.undoc = true
		}
		return &Unary{Op: "not", E: p.not(true)}
	}
	return p.eq()
}

func (p *parser) eq() Expr {
	e := p.cmp()
	for p.err == nil && (p.isPunct("==") || p.isPunct("!=")) {
		op := p.next().Text
		e = &Binary{Op: op, L: e, R: p.cmp()}
	}
	return e
}

func (p *parser) cmp() Expr {
	e := p.add()
	for p.err == nil && (p.isPunct("<") || p.isPunct("<=") || p.isPunct(">") || p.isPunct(">=")) {
		op := p.next().Text
		e = &Binary{Op: op, L: e, R: p.add()}
	}
	return e
}

func (p *parser) add() Expr {
	e := p.mul()
	for p.err == nil && (p.isPunct("+") || p.isPunct("-")) {
		op := p.next().Text
		e = &Binary{Op: op, L: e, R: p.mul()}
	}
	return e
}

func (p *parser) mul() Expr {
	e := p.un()
	for p.err == nil && (p.isPunct("*") || p.isPunct("/")) {
		op := p.next().Text
		e = &Binary{Op: op, L: e, R: p.un()}
	}
	return e
}

func (p *parser) un() Expr {
	if p.err != nil {
		return nil
	}
	if p.isPunct("-") || p.isPunct("+") {
		op := p.next().Text
		return &Unary{Op: op, E: p.un()}
	}
	if p.isKw("not") {
		// accepted, but the documentation does not say how it groups here
		return p.not(false)
	}
	return p.prim()
}

func (p *parser) prim() Expr {
	if p.err != nil {
		return nil
	}
	t := p.peek()
	switch {
	case t.Kind == KInt || t.Kind == KFloat || t.Kind == KStr:
		p.next()
		if !validLiteral(t) {
			p.pos--
			p.fail("invalid literal")
			return nil
		}
		return &Lit{Kind: t.Kind, Text: t.Text, End: t.End}
	case t.Kind == KKeyword && (t.Text == "true" || t.Text == "false" || t.Text == "nil"):
		p.next()
		return &Lit{Kind: KKeyword, Text: t.Text, End: t.End}
	case t.Kind == KIdent:
		p.next()
		return &Ident{Name: t.Text, End: t.End}
	case t.Kind == KPunct && t.Text == "(":
		p.next()
		e := p.expr()
		if p.err != nil {
			return nil
		}
		if !p.isPunct(")") {
			p.fail("expected )")
			return nil
		}
		return &Paren{E: e, End: p.next().End}
	}
	p.fail("expected expression")
	return nil
}

// validLiteral: integer literals are Go-style base-prefixed integers that fit
// in 64 bits, floats must be in range, strings must be valid Go string syntax.
func validLiteral(t Token) bool {
	switch t.Kind {
	case KInt:
		_, err := strconv.ParseInt(t.Text, 0, 64)
		return err == nil
	case KFloat:
		_, err := strconv.ParseFloat(t.Text, 64)
		return err == nil
	case KStr:
		_, err := strconv.Unquote(t.Text)
		return err == nil
	}
	return true
}

// LitValue converts a literal's spelling to its value.
func LitValue(l *Lit) any {
	switch l.Kind {
	case KInt:
		v, _ := strconv.ParseInt(l.Text, 0, 64)
		return int(v)
	case KFloat:
		v, _ := strconv.ParseFloat(l.Text, 64)
		return v
	case KStr:
		v, _ := strconv.Unquote(l.Text)
		return v
	}
	switch l.Text {
	case "true":
		return true
	case "false":
		return false
	}
	return nil
}

// ---- static rules ----

// StaticError is a compile error that is not a syntax error.
type StaticError struct {
	Msg string
	End int // end offset of the offending token
}

type scope struct {
	names []string
}

// Check applies the static rules: at toplevel an identifier must be a
// variable declared earlier; no redeclaration in the same scope. It returns
// all violations in source order.
func Check(prog *Program) []StaticError {
	var errs []StaticError
	var scopes []*scope
	scopes = append(scopes, &scope{})
	declared := func(name string) bool {
		for i := len(scopes) - 1; i >= 0; i-- {
			for _, n := range scopes[i].names {
				if n == name {
					return true
				}
			}
		}
		return false
	}
	var expr func(e Expr)
	expr = func(e Expr) {
		switch x := e.(type) {
		case *Ident:
			if len(scopes) == 1 && !declared(x.Name) {
				errs = append(errs, StaticError{"undefined variable", x.End})
			}
		case *Assign:
			if len(scopes) == 1 && !declared(x.Name) {
				errs = append(errs, StaticError{"undefined variable", x.NameEnd})
				// the implementation stops compiling this expression here; the
				// right-hand side is still checked by later tokens
			}
			expr(x.E)
		case *Unary:
			expr(x.E)
		case *Binary:
			expr(x.L)
			expr(x.R)
		case *Paren:
			expr(x.E)
		}
	}
	var stmts func(ss []Stmt)
	stmts = func(ss []Stmt) {
		for _, s := range ss {
			switch x := s.(type) {
			case *VarStmt:
				cur := scopes[len(scopes)-1]
				dup := false
				for _, n := range cur.names {
					if n == x.Name {
						dup = true
					}
				}
				if dup {
					errs = append(errs, StaticError{"variable already declared in this scope", x.NameEnd})
				}
				// the initializer does not see the new variable
				if x.Init != nil {
					expr(x.Init)
				}
				cur.names = append(cur.names, x.Name)
			case *EvalStmt:
				expr(x.E)
			case *PrintStmt:
				expr(x.E)
			case *ExprStmt:
				expr(x.E)
			case *DefStmt:
				scopes = append(scopes, &scope{})
				stmts(x.Body)
				scopes = scopes[:len(scopes)-1]
			}
		}
	}
	stmts(prog.Stmts)
	return errs
}
