package refbcl

// Reference bytecode machine for format 1.1 (Appendix C of DESIGN.md): an
// independent reading of the opcode table used as the oracle for hand
// assembled programs.

// Block mirrors the documented result block.
type Block struct {
	Type, Name string
	Fields     map[string]any
	Order      []string // keys in first-assignment order (reference only)
}

func (b *Block) set(k string, v any) {
	if _, ok := b.Fields[k]; !ok {
		b.Order = append(b.Order, k)
	}
	b.Fields[k] = v
}

// Result of a reference run.
type Result struct {
	Printed []any
	Blocks  []*Block
	// Binding: nil, or struct binding (one block) or slice binding
	BindKind  string // "" | "struct" | "slice"
	Bound     []*Block
	Warnings  int
	Err       *RuntimeError
	ErrPC     int // pc of the failing instruction's last byte + 1 (as vm.pc)
	Malformed bool
	Steps     int
	MaxStack  int
}

func key(b *Block) string {
	if b.Name == "" {
		return b.Type
	}
	return b.Type + "." + b.Name
}

// Instr is one decoded instruction.
type Instr struct {
	PC   int
	Op   byte
	A, B int // operands (constant index / slot / jump distance / count)
	Len  int
}

// DecodeCode splits code into instructions; ok=false if an operand is cut.
func DecodeCode(code []byte) (ins []Instr, ok bool) {
	pc := 0
	for pc < len(code) {
		in := Instr{PC: pc, Op: code[pc]}
		p := pc + 1
		uv := func() (int, bool) {
			x, n, ok := DecodeUvarint(code[p:])
			if !ok {
				return 0, false
			}
			p += n
			return int(x), true
		}
		switch in.Op {
		case OpSETLOCAL, OpGETLOCAL, OpSETFIELD, OpGETFIELD, OpCONST, OpPOPN:
			a, ok := uv()
			if !ok {
				return ins, false
			}
			in.A = a
		case OpDEFBLOCK:
			a, ok := uv()
			if !ok {
				return ins, false
			}
			b, ok := uv()
			if !ok {
				return ins, false
			}
			in.A, in.B = a, b
		case OpJUMP, OpLOOP, OpJFALSE:
			if p+2 > len(code) {
				return ins, false
			}
			in.A = int(code[p])<<8 | int(code[p+1])
			p += 2
		case OpBIND:
			a, ok := uv()
			if !ok {
				return ins, false
			}
			if p >= len(code) {
				return ins, false
			}
			in.A, in.B = a, int(code[p])
			p++
		default:
			if in.Op > OpBIND {
				return ins, false
			}
		}
		in.Len = p - pc
		ins = append(ins, in)
		pc = p
	}
	return ins, true
}

// Run executes a decoded dump with the reference semantics.
func Run(d *Dump, maxSteps int) *Result {
	r := &Result{}
	var stack []any
	var blocks []*Block
	code := d.Code
	pc := 0
	constStr := func(i int) (string, bool) {
		if i < 0 || i >= len(d.Consts) {
			return "", false
		}
		s, ok := d.Consts[i].(string)
		return s, ok
	}
	fail := func(e *RuntimeError) *Result {
		r.Err = e
		r.ErrPC = pc
		return r
	}
	for {
		if r.Steps >= maxSteps || pc >= len(code) {
			r.Malformed = true
			return r
		}
		r.Steps++
		op := code[pc]
		pc++
		uv := func() int {
			x, n, ok := DecodeUvarint(code[pc:])
			if !ok {
				r.Malformed = true
				return 0
			}
			pc += n
			return int(x)
		}
		u16 := func() int {
			if pc+2 > len(code) {
				r.Malformed = true
				return 0
			}
			x := int(code[pc])<<8 | int(code[pc+1])
			pc += 2
			return x
		}
		push := func(v any) {
			stack = append(stack, v)
			if len(stack) > r.MaxStack {
				r.MaxStack = len(stack)
			}
		}
		need := func(n int) bool {
			if len(stack) < n {
				r.Malformed = true
				return false
			}
			return true
		}
		switch op {
		case OpNOP:
		case OpRET:
			if len(stack) != 0 || len(blocks) != 0 {
				r.Malformed = true
			}
			return r
		case OpPRINT:
			if !need(1) {
				return r
			}
			r.Printed = append(r.Printed, stack[len(stack)-1])
			stack = stack[:len(stack)-1]
		case OpSETLOCAL:
			slot := uv()
			if !need(1) || slot >= len(stack) {
				r.Malformed = true
				return r
			}
			stack[slot] = stack[len(stack)-1]
		case OpGETLOCAL:
			slot := uv()
			if slot >= len(stack) {
				r.Malformed = true
				return r
			}
			push(stack[slot])
		case OpDEFBLOCK:
			ti, ni := uv(), uv()
			t, ok1 := constStr(ti)
			n, ok2 := constStr(ni)
			if !ok1 || !ok2 {
				r.Malformed = true
				return r
			}
			blocks = append(blocks, &Block{Type: t, Name: n, Fields: map[string]any{}})
		case OpENDBLOCK:
			if len(blocks) == 0 {
				r.Malformed = true
				return r
			}
			b := blocks[len(blocks)-1]
			blocks = blocks[:len(blocks)-1]
			if len(blocks) == 0 {
				r.Blocks = append(r.Blocks, b)
			} else {
				parent := blocks[len(blocks)-1]
				k := key(b)
				if _, dup := parent.Fields[k]; dup {
					return fail(&RuntimeError{Kind: "dupchild", Name: k})
				}
				parent.set(k, b)
			}
		case OpSETFIELD:
			name, ok := constStr(uv())
			if !ok || len(blocks) == 0 || !need(1) {
				r.Malformed = true
				return r
			}
			blocks[len(blocks)-1].set(name, stack[len(stack)-1])
		case OpGETFIELD:
			name, ok := constStr(uv())
			if !ok || len(blocks) == 0 {
				r.Malformed = true
				return r
			}
			cur := blocks[len(blocks)-1]
			switch name {
			case "TYPE":
				push(cur.Type)
			case "NAME":
				push(cur.Name)
			default:
				found := false
				for i := len(blocks) - 1; i >= 0; i-- {
					if v, ok := blocks[i].Fields[name]; ok {
						push(v)
						found = true
						break
					}
				}
				if !found {
					return fail(&RuntimeError{Kind: "unresolved", Name: name})
				}
			}
		case OpCONST:
			i := uv()
			if i >= len(d.Consts) {
				r.Malformed = true
				return r
			}
			push(d.Consts[i])
		case OpNIL:
			push(nil)
		case OpZERO:
			push(0)
		case OpONE:
			push(1)
		case OpTRUE:
			push(true)
		case OpFALSE:
			push(false)
		case OpNOT:
			if !need(1) {
				return r
			}
			stack[len(stack)-1] = Falsey(stack[len(stack)-1])
		case OpEQ, OpLT, OpGT, OpADD, OpSUB, OpMUL, OpDIV:
			if !need(2) {
				return r
			}
			a, b := stack[len(stack)-2], stack[len(stack)-1]
			sym := map[byte]string{OpEQ: "==", OpLT: "<", OpGT: ">", OpADD: "+", OpSUB: "-", OpMUL: "*", OpDIV: "/"}[op]
			v, e := ApplyBinary(sym, a, b)
			if e != nil {
				return fail(e)
			}
			stack = append(stack[:len(stack)-2], v)
		case OpNEG, OpUNPLUS:
			if !need(1) {
				return r
			}
			sym := "-"
			if op == OpUNPLUS {
				sym = "+"
			}
			v, e := ApplyUnary(sym, stack[len(stack)-1])
			if e != nil {
				return fail(e)
			}
			stack[len(stack)-1] = v
		case OpJUMP:
			pc += u16()
		case OpLOOP:
			pc -= u16()
		case OpJFALSE:
			d := u16()
			if !need(1) {
				return r
			}
			if Falsey(stack[len(stack)-1]) {
				pc += d
			}
		case OpPOP:
			if !need(1) {
				return r
			}
			stack = stack[:len(stack)-1]
		case OpPOPN:
			n := uv()
			if !need(n) {
				return r
			}
			stack = stack[:len(stack)-n]
		case OpBIND:
			t, ok := constStr(uv())
			if !ok || pc >= len(code) {
				r.Malformed = true
				return r
			}
			opt := code[pc]
			pc++
			if r.BindKind != "" {
				r.Warnings++
			}
			var cands []*Block
			for _, b := range r.Blocks {
				if b.Type == t {
					cands = append(cands, b)
				}
			}
			if len(cands) == 0 {
				return fail(&RuntimeError{Kind: "bind-none", Name: t})
			}
			target, sel := opt>>4, opt&0x0F
			if sel == 1 && len(cands) != 1 {
				return fail(&RuntimeError{Kind: "bind-many", Name: t})
			}
			var chosen []*Block
			switch sel {
			case 1, 2:
				chosen = cands[:1]
			case 3:
				chosen = cands[len(cands)-1:]
			case 15:
				chosen = cands
			default:
				return fail(&RuntimeError{Kind: "bind-invalid"})
			}
			switch {
			case target == 1 && sel != 15:
				r.BindKind, r.Bound = "struct", chosen
			case target == 2:
				r.BindKind, r.Bound = "slice", chosen
			default:
				return fail(&RuntimeError{Kind: "bind-invalid"})
			}
		default:
			r.Malformed = true
			return r
		}
		if r.Malformed {
			return r
		}
	}
}
