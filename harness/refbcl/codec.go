// Package refbcl is the reference model of BCL written from the documentation
// (README, NOTE, NEXT and the documented dump format 1.1). It shares no code
// with the implementation under test.
package refbcl

import "math"

// AppendUvarint appends the sqlite4 variable-length encoding of x.
//
//	0..240            1 byte:  x
//	241..2287         2 bytes: 241+(x-240)/256, (x-240)%256
//	2288..67823       3 bytes: 249, (x-2288)/256, (x-2288)%256
//	..2^24-1          250 + 3 bytes big endian, and so on up to 255 + 8 bytes
func AppendUvarint(b []byte, x uint64) []byte {
	switch {
	case x <= 240:
		return append(b, byte(x))
	case x <= 2287:
		y := x - 240
		return append(b, byte(241+y/256), byte(y%256))
	case x <= 67823:
		y := x - 2288
		return append(b, 249, byte(y/256), byte(y%256))
	}
	n := 3
	for n < 8 && x >= uint64(1)<<(8*uint(n)) {
		n++
	}
	b = append(b, byte(250+n-3))
	for i := n - 1; i >= 0; i-- {
		b = append(b, byte(x>>(8*uint(i))))
	}
	return b
}

// UvarintLen is the encoded size of x.
func UvarintLen(x uint64) int {
	switch {
	case x <= 240:
		return 1
	case x <= 2287:
		return 2
	case x <= 67823:
		return 3
	}
	n := 3
	for n < 8 && x >= uint64(1)<<(8*uint(n)) {
		n++
	}
	return n + 1
}

// DecodeUvarint decodes one varint; ok is false if b is too short.
func DecodeUvarint(b []byte) (x uint64, n int, ok bool) {
	if len(b) == 0 {
		return 0, 0, false
	}
	a0 := b[0]
	switch {
	case a0 <= 240:
		return uint64(a0), 1, true
	case a0 <= 248:
		if len(b) < 2 {
			return 0, 0, false
		}
		return 240 + 256*uint64(a0-241) + uint64(b[1]), 2, true
	case a0 == 249:
		if len(b) < 3 {
			return 0, 0, false
		}
		return 2288 + 256*uint64(b[1]) + uint64(b[2]), 3, true
	}
	k := int(a0-250) + 3
	if len(b) < 1+k {
		return 0, 0, false
	}
	for i := 1; i <= k; i++ {
		x = x<<8 | uint64(b[i])
	}
	return x, 1 + k, true
}

// Type codes of typed values.
const (
	TNil   = 0
	TInt   = 1
	TFloat = 2
	TStr   = 3
	TBool  = 4
)

// AppendValue appends a typed constant: int as the varint of its two's
// complement bit pattern, float as 8 bytes big-endian IEEE bits, string as
// varint length + bytes, bool as one byte, nil as nothing.
func AppendValue(b []byte, v any) []byte {
	switch x := v.(type) {
	case nil:
		return append(b, TNil)
	case int:
		b = append(b, TInt)
		return AppendUvarint(b, uint64(x))
	case float64:
		b = append(b, TFloat)
		u := math.Float64bits(x)
		for i := 7; i >= 0; i-- {
			b = append(b, byte(u>>(8*uint(i))))
		}
		return b
	case string:
		b = append(b, TStr)
		b = AppendUvarint(b, uint64(len(x)))
		return append(b, x...)
	case bool:
		if x {
			return append(b, TBool, 1)
		}
		return append(b, TBool, 0)
	}
	panic("refbcl: unsupported constant type")
}

// Dump is the decoded form of a bytecode file.
type Dump struct {
	Major, Minor byte
	Name         string
	Code         []byte
	Consts       []any
	Positions    []int
	Lfs          []int
}

// Encode writes the documented layout: magic FC 6C, version, name, code,
// constants, positions, line table.
func (d *Dump) Encode() []byte {
	b := []byte{0xFC, 0x6C, d.Major, d.Minor}
	b = AppendUvarint(b, uint64(len(d.Name)))
	b = append(b, d.Name...)
	b = AppendUvarint(b, uint64(len(d.Code)))
	b = append(b, d.Code...)
	b = AppendUvarint(b, uint64(len(d.Consts)))
	for _, c := range d.Consts {
		b = AppendValue(b, c)
	}
	b = AppendUvarint(b, uint64(len(d.Positions)))
	for _, p := range d.Positions {
		b = AppendUvarint(b, uint64(p))
	}
	b = AppendUvarint(b, uint64(len(d.Lfs)))
	for _, p := range d.Lfs {
		b = AppendUvarint(b, uint64(p))
	}
	return b
}

// Decode parses a complete dump; ok is false on any structural problem.
func Decode(b []byte) (d *Dump, ok bool) {
	d = &Dump{}
	if len(b) < 4 || b[0] != 0xFC || b[1] != 0x6C {
		return nil, false
	}
	d.Major, d.Minor = b[2], b[3]
	b = b[4:]
	next := func() (uint64, bool) {
		x, n, ok := DecodeUvarint(b)
		if !ok {
			return 0, false
		}
		b = b[n:]
		return x, true
	}
	take := func(n uint64) ([]byte, bool) {
		if uint64(len(b)) < n {
			return nil, false
		}
		p := b[:n]
		b = b[n:]
		return p, true
	}
	n, ok := next()
	if !ok {
		return nil, false
	}
	p, ok := take(n)
	if !ok {
		return nil, false
	}
	d.Name = string(p)
	if n, ok = next(); !ok {
		return nil, false
	}
	if p, ok = take(n); !ok {
		return nil, false
	}
	d.Code = append([]byte(nil), p...)
	if n, ok = next(); !ok {
		return nil, false
	}
	for i := uint64(0); i < n; i++ {
		t, ok := take(1)
		if !ok {
			return nil, false
		}
		switch t[0] {
		case TNil:
			d.Consts = append(d.Consts, nil)
		case TInt:
			x, ok := next()
			if !ok {
				return nil, false
			}
			d.Consts = append(d.Consts, int(x))
		case TFloat:
			p, ok := take(8)
			if !ok {
				return nil, false
			}
			var u uint64
			for _, c := range p {
				u = u<<8 | uint64(c)
			}
			d.Consts = append(d.Consts, math.Float64frombits(u))
		case TStr:
			k, ok := next()
			if !ok {
				return nil, false
			}
			p, ok := take(k)
			if !ok {
				return nil, false
			}
			d.Consts = append(d.Consts, string(p))
		case TBool:
			p, ok := take(1)
			if !ok {
				return nil, false
			}
			d.Consts = append(d.Consts, p[0] != 0)
		default:
			return nil, false
		}
	}
	if n, ok = next(); !ok {
		return nil, false
	}
	for i := uint64(0); i < n; i++ {
		x, ok := next()
		if !ok {
			return nil, false
		}
		d.Positions = append(d.Positions, int(x))
	}
	if n, ok = next(); !ok {
		return nil, false
	}
	for i := uint64(0); i < n; i++ {
		x, ok := next()
		if !ok {
			return nil, false
		}
		d.Lfs = append(d.Lfs, int(x))
	}
	if len(b) != 0 {
		return nil, false
	}
	return d, true
}
