package refbcl

// Reference tokenizer, written from the language description: whole-buffer,
// byte oriented, no channels, no state functions.

// Token kinds.
const (
	KEOF = iota
	KErr // lexical failure; ends the token stream
	KInt
	KFloat
	KStr
	KIdent
	KKeyword // Text is the keyword
	KPunct   // Text is the operator or punctuation
)

type Token struct {
	Kind int
	Text string
	End  int    // byte offset just after the token
	Msg  string // for KErr: which kind of failure
}

var keywordList = []string{"var", "def", "eval", "print", "bind", "true", "false", "nil", "not", "and", "or"}

func isKeyword(s string) bool {
	for _, k := range keywordList {
		if s == k {
			return true
		}
	}
	return false
}

func isDigit(c byte) bool  { return c >= '0' && c <= '9' }
func isLetter(c byte) bool { return c >= 'a' && c <= 'z' || c >= 'A' && c <= 'Z' }
func isHex(c byte) bool {
	return isDigit(c) || c >= 'a' && c <= 'f' || c >= 'A' && c <= 'F'
}

// spaceLen returns the length of the whitespace character at s[i:], or 0.
// Whitespace: space, tab, vertical tab, form feed, CR, LF, U+0085, U+00A0.
func spaceLen(s string, i int) int {
	switch s[i] {
	case ' ', '\t', '\v', '\f', '\n', '\r':
		return 1
	case 0xC2:
		if i+1 < len(s) && (s[i+1] == 0x85 || s[i+1] == 0xA0) {
			return 2
		}
	}
	return 0
}

const punct1 = "={}()<>+-*/:;"

func isPunct1(c byte) bool {
	for i := 0; i < len(punct1); i++ {
		if punct1[i] == c {
			return true
		}
	}
	return false
}

// Tokens splits src into tokens. The stream ends with KEOF, or with KErr at
// the first lexical failure.
func Tokens(src string) []Token {
	var out []Token
	i := 0
	fail := func(end int, msg string) []Token {
		return append(out, Token{Kind: KErr, End: end, Msg: msg})
	}
	for {
		// layout: whitespace and comments
		for i < len(src) {
			if n := spaceLen(src, i); n > 0 {
				i += n
				continue
			}
			if src[i] == '#' {
				for i < len(src) && src[i] != '\n' && src[i] != '\r' {
					i++
				}
				continue
			}
			break
		}
		if i >= len(src) {
			return append(out, Token{Kind: KEOF, End: i})
		}
		c := src[i]
		start := i
		switch {
		case c == '=' || c == '!' || c == '<' || c == '>' || c == '-':
			second := byte('=')
			if c == '-' {
				second = '>'
			}
			if i+1 < len(src) && src[i+1] == second {
				i += 2
				out = append(out, Token{Kind: KPunct, Text: src[start:i], End: i})
				continue
			}
			if c == '!' {
				return fail(i+1, "lone !")
			}
			i++
			out = append(out, Token{Kind: KPunct, Text: src[start:i], End: i})
		case isPunct1(c):
			i++
			out = append(out, Token{Kind: KPunct, Text: src[start:i], End: i})
		case c == '"':
			i++
			closed := false
			for i < len(src) {
				if src[i] == '\\' {
					if i+1 >= len(src) {
						i = len(src)
						break
					}
					if src[i+1] == '\n' {
						i += 2
						break
					}
					// the escaped character may be multi-byte
					i += 1 + runeLen(src, i+1)
					continue
				}
				if src[i] == '\n' {
					i++
					break
				}
				if src[i] == '"' {
					i++
					closed = true
					break
				}
				i++
			}
			if !closed {
				return fail(i, "unterminated string")
			}
			if i < len(src) && (isLetter(src[i]) || isDigit(src[i])) {
				return fail(i+1, "string glued to a letter or digit")
			}
			out = append(out, Token{Kind: KStr, Text: src[start:i], End: i})
		case isLetter(c) || c == '_':
			for i < len(src) && (isLetter(src[i]) || isDigit(src[i]) || src[i] == '_') {
				i++
			}
			if i < len(src) && src[i] == '"' {
				return fail(i+1, "identifier glued to a quote")
			}
			word := src[start:i]
			if isKeyword(word) {
				out = append(out, Token{Kind: KKeyword, Text: word, End: i})
			} else {
				out = append(out, Token{Kind: KIdent, Text: word, End: i})
			}
		case isDigit(c):
			kind := KInt
			if c == '0' && i+1 < len(src) && (src[i+1] == 'x' || src[i+1] == 'X') {
				i += 2
				for i < len(src) && isHex(src[i]) {
					i++
				}
				if i < len(src) && (src[i] == '.' || src[i] == '"' || isLetter(src[i])) {
					return fail(i+1, "hex number glued to a dot, quote or letter")
				}
			} else {
				for i < len(src) && isDigit(src[i]) {
					i++
				}
				if i < len(src) && (src[i] == '.' || src[i] == 'e' || src[i] == 'E') {
					kind = KFloat
					if src[i] == '.' {
						i++
						n := 0
						for i < len(src) && isDigit(src[i]) {
							i++
							n++
						}
						if n == 0 {
							return fail(i, "no digits after the dot")
						}
					}
					if i < len(src) && (src[i] == 'e' || src[i] == 'E') {
						i++
						if i < len(src) && (src[i] == '+' || src[i] == '-') {
							i++
						}
						n := 0
						for i < len(src) && isDigit(src[i]) {
							i++
							n++
						}
						if n == 0 {
							return fail(i, "no digits in the exponent")
						}
					}
				}
				if i < len(src) && (src[i] == '"' || isLetter(src[i])) {
					return fail(i+1, "number glued to a quote or letter")
				}
			}
			out = append(out, Token{Kind: kind, Text: src[start:i], End: i})
		default:
			// any other character, including every non-ASCII one that is not
			// one of the two whitespace characters, and invalid UTF-8
			return fail(i+runeLen(src, i), "unknown character")
		}
	}
}

// runeLen is the byte length of the UTF-8 sequence at s[i:] (1 if invalid).
func runeLen(s string, i int) int {
	c := s[i]
	n := 1
	var lo, hi byte = 0x80, 0xBF
	switch {
	case c < 0x80:
		return 1
	case c >= 0xC2 && c <= 0xDF:
		n = 2
	case c == 0xE0:
		n, lo = 3, 0xA0
	case c >= 0xE1 && c <= 0xEC, c == 0xEE, c == 0xEF:
		n = 3
	case c == 0xED:
		n, hi = 3, 0x9F
	case c == 0xF0:
		n, lo = 4, 0x90
	case c >= 0xF1 && c <= 0xF3:
		n = 4
	case c == 0xF4:
		n, hi = 4, 0x8F
	default:
		return 1
	}
	if i+n > len(s) {
		return 1
	}
	if s[i+1] < lo || s[i+1] > hi {
		return 1
	}
	for k := 2; k < n; k++ {
		if s[i+k] < 0x80 || s[i+k] > 0xBF {
			return 1
		}
	}
	return n
}

// LineCol: line is one plus the number of newlines before pos; column is the
// distance in bytes from the preceding newline, or from the start plus one.
func LineCol(src string, pos int) (line, col int) {
	line = 1
	last := -1
	for i := 0; i < pos && i < len(src); i++ {
		if src[i] == '\n' {
			line++
			last = i
		}
	}
	return line, pos - last
}

// NewlineOffsets is the expected line table of a source.
func NewlineOffsets(src string) []int {
	out := []int{}
	for i := 0; i < len(src); i++ {
		if src[i] == '\n' {
			out = append(out, i)
		}
	}
	return out
}
