package refbcl

import (
	"math"
	"strconv"
	"strings"

	"verifharness/verif"
)

// RuntimeError is the reference notion of a runtime error: what failed and on
// which operand types. Only these are compared with the implementation.
type RuntimeError struct {
	Kind  string // "types" | "divzero" | "unresolved" | "dupchild" | "bind-none" | "bind-many" | "bind-invalid" | "unary"
	Left  string
	Right string
	Name  string
}

func (e *RuntimeError) Error() string { return "ref runtime error: " + e.Kind + " " + e.Left + " " + e.Right + " " + e.Name }

// TypeName is the documented name of a value's dynamic type.
func TypeName(v any) string {
	switch v.(type) {
	case nil:
		return "nil"
	case int:
		return "int"
	case float64:
		return "float"
	case string:
		return "string"
	case bool:
		return "bool"
	}
	return "unknown"
}

// Falsey: false, nil, empty string and zero (int 0, float +0 or -0).
func Falsey(v any) bool {
	switch x := v.(type) {
	case nil:
		return true
	case bool:
		return !x
	case int:
		return x == 0
	case float64:
		return x == 0
	case string:
		return len(x) == 0
	}
	return false
}

func isNum(v any) bool {
	switch v.(type) {
	case int, float64:
		return true
	}
	return false
}

func toF(v any) float64 {
	switch x := v.(type) {
	case int:
		return float64(x)
	case float64:
		return x
	}
	panic("toF")
}

func typesErr(a, b any) *RuntimeError {
	return &RuntimeError{Kind: "types", Left: TypeName(a), Right: TypeName(b)}
}

// Binary applies a binary operator per the documented rules.
// op is one of + - * / == != < <= > >=.
func ApplyBinary(op string, a, b any) (any, *RuntimeError) {
	switch op {
	case "==":
		return Equal(a, b), nil
	case "!=":
		return !Equal(a, b), nil
	}
	if isNum(a) && isNum(b) {
		ai, aInt := a.(int)
		bi, bInt := b.(int)
		if op == "/" && bInt {
			if !aInt {
				// float dividend, int zero divisor: the documentation is silent
				verif.Assume(bi != 0)
			}
			if bi == 0 {
				return nil, &RuntimeError{Kind: "divzero"}
			}
		}
		if aInt && bInt {
			switch op {
			case "+":
				return ai + bi, nil
			case "-":
				return ai - bi, nil
			case "*":
				return ai * bi, nil
			case "/":
				return ai / bi, nil
			case "<":
				return ai < bi, nil
			case "<=":
				return ai <= bi, nil
			case ">":
				return ai > bi, nil
			case ">=":
				return ai >= bi, nil
			}
		}
		af, bf := toF(a), toF(b)
		switch op {
		case "+":
			return af + bf, nil
		case "-":
			return af - bf, nil
		case "*":
			return af * bf, nil
		case "/":
			return af / bf, nil
		}
		// ordering with a NaN operand is not documented
		verif.Assume(!math.IsNaN(af) && !math.IsNaN(bf))
		switch op {
		case "<":
			return af < bf, nil
		case "<=":
			return af <= bf, nil
		case ">":
			return af > bf, nil
		case ">=":
			return af >= bf, nil
		}
	}
	as, aStr := a.(string)
	if aStr {
		switch bv := b.(type) {
		case string:
			switch op {
			case "+":
				return as + bv, nil
			case "<":
				return as < bv, nil
			case "<=":
				return as <= bv, nil
			case ">":
				return as > bv, nil
			case ">=":
				return as >= bv, nil
			}
		case int:
			switch op {
			case "+":
				return as + strconv.Itoa(bv), nil
			case "*":
				// negative counts are outside the documented domain (C06)
				verif.Assume(bv >= 0)
				return strings.Repeat(as, bv), nil
			}
		case float64:
			if op == "+" {
				return as + strconv.FormatFloat(bv, 'f', -1, 64), nil
			}
		case nil:
			if op == "+" {
				return as, nil
			}
		}
	}
	return nil, typesErr(a, b)
}

// Equal: numbers compare numerically across int and float; otherwise values
// are equal iff they have the same type and the same value; nil equals nil.
func Equal(a, b any) bool {
	if isNum(a) && isNum(b) {
		ai, aInt := a.(int)
		bi, bInt := b.(int)
		if aInt && bInt {
			return ai == bi
		}
		return toF(a) == toF(b)
	}
	switch x := a.(type) {
	case nil:
		return b == nil
	case string:
		y, ok := b.(string)
		return ok && x == y
	case bool:
		y, ok := b.(bool)
		return ok && x == y
	}
	return false
}

// Unary applies unary minus or plus; only numbers are in the domain.
func ApplyUnary(op string, a any) (any, *RuntimeError) {
	switch x := a.(type) {
	case int:
		if op == "-" {
			return -x, nil
		}
		return x, nil
	case float64:
		if op == "-" {
			return -x, nil
		}
		return x, nil
	}
	return nil, &RuntimeError{Kind: "unary", Left: TypeName(a)}
}
