package refbcl

// Opcode numbers of bytecode format 1.1 (recorded specification).
const (
	OpNOP      = 0
	OpRET      = 1
	OpPRINT    = 2
	OpSETLOCAL = 3
	OpGETLOCAL = 4
	OpDEFBLOCK = 5
	OpENDBLOCK = 6
	OpSETFIELD = 7
	OpGETFIELD = 8
	OpCONST    = 9
	OpNIL      = 10
	OpZERO     = 11
	OpONE      = 12
	OpTRUE     = 13
	OpFALSE    = 14
	OpNOT      = 15
	OpEQ       = 16
	OpLT       = 17
	OpGT       = 18
	OpADD      = 19
	OpSUB      = 20
	OpMUL      = 21
	OpDIV      = 22
	OpNEG      = 23
	OpUNPLUS   = 24
	OpJUMP     = 25
	OpLOOP     = 26
	OpJFALSE   = 27
	OpPOP      = 28
	OpPOPN     = 29
	OpBIND     = 30
)
