package refbcl

// Reference evaluator: a tree-walking interpreter of the documented language
// (README, NOTE, NEXT). It shares nothing with the bytecode compiler and VM.

type variable struct {
	name string
	val  any
}

type frame struct {
	vars  []*variable
	block *Block // nil at toplevel
}

type evaluator struct {
	frames []*frame
	res    *Result
	// Values maps literal spellings to (possibly symbolic) values: harnesses
	// use placeholder literals and substitute symbolic constants.
	values map[string]any
	err    *RuntimeError
	errEnd int
}

// Eval runs a checked program. values may map literal spellings to values
// that replace them (nil for none). ErrPC of the result holds the source
// offset designated by a runtime error.
func Eval(prog *Program, values map[string]any) *Result {
	ev := &evaluator{res: &Result{}, values: values}
	ev.frames = []*frame{{}}
	ev.stmts(prog.Stmts)
	ev.res.Err = ev.err
	ev.res.ErrPC = ev.errEnd
	return ev.res
}

func (ev *evaluator) fail(e *RuntimeError, end int) {
	if ev.err == nil {
		ev.err = e
		ev.errEnd = end
	}
}

func (ev *evaluator) lookupVar(name string) *variable {
	for i := len(ev.frames) - 1; i >= 0; i-- {
		vs := ev.frames[i].vars
		for j := len(vs) - 1; j >= 0; j-- {
			if vs[j].name == name {
				return vs[j]
			}
		}
	}
	return nil
}

func (ev *evaluator) curBlock() *Block { return ev.frames[len(ev.frames)-1].block }

func (ev *evaluator) stmts(ss []Stmt) {
	for _, s := range ss {
		if ev.err != nil {
			return
		}
		switch x := s.(type) {
		case *VarStmt:
			var v any
			if x.Init != nil {
				v = ev.expr(x.Init)
				if ev.err != nil {
					return
				}
			}
			f := ev.frames[len(ev.frames)-1]
			f.vars = append(f.vars, &variable{x.Name, v})
		case *EvalStmt:
			ev.expr(x.E)
		case *ExprStmt:
			ev.expr(x.E)
		case *PrintStmt:
			v := ev.expr(x.E)
			if ev.err == nil {
				ev.res.Printed = append(ev.res.Printed, v)
			}
		case *DefStmt:
			b := &Block{Type: x.Type, Name: x.Name, Fields: map[string]any{}}
			ev.frames = append(ev.frames, &frame{block: b})
			ev.stmts(x.Body)
			ev.frames = ev.frames[:len(ev.frames)-1]
			if ev.err != nil {
				return
			}
			if parent := ev.curBlock(); parent != nil {
				k := key(b)
				if _, dup := parent.Fields[k]; dup {
					ev.fail(&RuntimeError{Kind: "dupchild", Name: k}, x.End)
					return
				}
				parent.set(k, b)
			} else {
				ev.res.Blocks = append(ev.res.Blocks, b)
			}
		case *BindStmt:
			ev.bind(x)
		}
	}
}

func (ev *evaluator) bind(x *BindStmt) {
	if ev.res.BindKind != "" {
		ev.res.Warnings++
	}
	var cands []*Block
	for _, b := range ev.res.Blocks {
		if b.Type == x.Type {
			cands = append(cands, b)
		}
	}
	if len(cands) == 0 {
		ev.fail(&RuntimeError{Kind: "bind-none", Name: x.Type}, x.End)
		return
	}
	var chosen []*Block
	switch x.Sel {
	case "", "1":
		if len(cands) != 1 {
			ev.fail(&RuntimeError{Kind: "bind-many", Name: x.Type}, x.End)
			return
		}
		chosen = cands
	case "first":
		chosen = cands[:1]
	case "last":
		chosen = cands[len(cands)-1:]
	case "all":
		chosen = cands
	}
	ev.res.BindKind, ev.res.Bound = x.Target, chosen
}

func (ev *evaluator) expr(e Expr) any {
	if ev.err != nil {
		return nil
	}
	switch x := e.(type) {
	case *Lit:
		if ev.values != nil {
			if v, ok := ev.values[x.Text]; ok {
				return v
			}
		}
		return LitValue(x)
	case *Paren:
		return ev.expr(x.E)
	case *Ident:
		if v := ev.lookupVar(x.Name); v != nil {
			return v.val
		}
		return ev.field(x.Name, x.End)
	case *Assign:
		v := ev.expr(x.E)
		if ev.err != nil {
			return nil
		}
		if vr := ev.lookupVar(x.Name); vr != nil {
			vr.val = v
			return v
		}
		if b := ev.curBlock(); b != nil {
			b.set(x.Name, v)
		}
		return v
	case *Unary:
		v := ev.expr(x.E)
		if ev.err != nil {
			return nil
		}
		if x.Op == "not" {
			return Falsey(v)
		}
		r, err := ApplyUnary(x.Op, v)
		if err != nil {
			ev.fail(err, ExprEnd(x.E))
			return nil
		}
		return r
	case *Binary:
		l := ev.expr(x.L)
		if ev.err != nil {
			return nil
		}
		switch x.Op {
		case "and":
			if Falsey(l) {
				return l
			}
			return ev.expr(x.R)
		case "or":
			if !Falsey(l) {
				return l
			}
			return ev.expr(x.R)
		}
		r := ev.expr(x.R)
		if ev.err != nil {
			return nil
		}
		v, err := ApplyBinary(x.Op, l, r)
		if err != nil {
			ev.fail(err, ExprEnd(x.R))
			return nil
		}
		return v
	}
	return nil
}

// field reads a field: TYPE and NAME of the current block, otherwise the
// current block or the nearest enclosing one that has it.
func (ev *evaluator) field(name string, end int) any {
	cur := ev.curBlock()
	if cur == nil {
		// toplevel identifiers are variables; Check rejects the others
		ev.fail(&RuntimeError{Kind: "unresolved", Name: name}, end)
		return nil
	}
	switch name {
	case "TYPE":
		return cur.Type
	case "NAME":
		return cur.Name
	}
	for i := len(ev.frames) - 1; i >= 0; i-- {
		b := ev.frames[i].block
		if b == nil {
			continue
		}
		if v, ok := b.Fields[name]; ok {
			return v
		}
	}
	ev.fail(&RuntimeError{Kind: "unresolved", Name: name}, end)
	return nil
}
