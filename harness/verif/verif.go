// Package verif is the harness API. Under the symbolic engine every function
// here is intercepted (the bodies below are never executed); natively the
// functions replay a recorded witness so a solver model can be re-run against
// the real, compiled code.
package verif

import (
	"bytes"
	"fmt"
	"math"
	"os"
	"os/exec"
	"path/filepath"
	"reflect"
	"runtime"
	"sort"
	"strconv"
	"strings"
	"time"
)

// Input is one recorded input value (mirrors the engine's InputRec).
type Input struct {
	Kind  string   `json:"kind"`
	Name  string   `json:"name"`
	Width int      `json:"width,omitempty"`
	N     int      `json:"n,omitempty"`
	Val   uint64   `json:"val"`
	Vals  []uint64 `json:"vals,omitempty"`
}

// Obs is one observation or record.
type Obs struct {
	Label string `json:"label"`
	Val   string `json:"val"`
}

// State of a native replay.
type State struct {
	Inputs   []Input
	pos      int
	Obs      []Obs
	Records  []Obs
	Reached  []string
	Failed   []string // labels of failed assertions
	Assumed  bool     // an Assume was false
	Mismatch string
}

var st *State

// AssumeFailed is panicked when an assumption does not hold natively.
type AssumeFailed struct{}

// Begin starts a native replay with the given inputs.
func Begin(inputs []Input) *State {
	st = &State{Inputs: inputs}
	// goroutines alive before the harness starts, plus the one it runs on
	baseline = runtime.NumGoroutine() + 1
	return st
}

var baseline int

func next(kind, name string) Input {
	if st == nil {
		panic("verif: no replay in progress")
	}
	if st.pos >= len(st.Inputs) {
		st.Mismatch = fmt.Sprintf("witness exhausted at %s %q", kind, name)
		panic(AssumeFailed{})
	}
	in := st.Inputs[st.pos]
	st.pos++
	if in.Kind != kind || in.Name != name {
		st.Mismatch = fmt.Sprintf("want %s %q, witness has %s %q", kind, name, in.Kind, in.Name)
		panic(AssumeFailed{})
	}
	return in
}

func Byte(name string) byte       { return byte(next("byte", name).Val) }
func Int(name string) int         { return int(next("int", name).Val) }
func Int64(name string) int64     { return int64(next("int64", name).Val) }
func Uint64(name string) uint64   { return next("uint64", name).Val }
func Int32(name string) int32     { return int32(next("int32", name).Val) }
func Uint16(name string) uint16   { return uint16(next("uint16", name).Val) }
func Bool(name string) bool       { return next("bool", name).Val != 0 }
func Float64(name string) float64 { return math.Float64frombits(next("float", name).Val) }

func Bytes(name string, n int) []byte {
	in := next("bytes", name)
	out := make([]byte, n)
	for i := range out {
		if i < len(in.Vals) {
			out[i] = byte(in.Vals[i])
		}
	}
	return out
}

func String(name string, n int) string { return string(Bytes(name, n)) }

func Choice(name string, n int) int { return int(next("choice", name).Val) }

func Assume(c bool) {
	if !c {
		st.Assumed = true
		panic(AssumeFailed{})
	}
}

func Assert(c bool, label string) {
	if !c {
		st.Failed = append(st.Failed, label)
	}
}

func Fail(label string) { st.Failed = append(st.Failed, label) }

func Reach(label string) { st.Reached = append(st.Reached, label) }

func Observe(label string, v any) { st.Obs = append(st.Obs, Obs{label, Render(v)}) }

func Record(label string, v any) { st.Records = append(st.Records, Obs{label, Render(v)}) }

// Symbolic reports whether the harness runs under the symbolic engine.
func Symbolic() bool { return false }

// Quiesce lets all other goroutines run until none can progress and returns
// how many have not finished.
func Quiesce() int {
	// natively: wait (up to 3 s) until the goroutines started since the harness
	// began have finished - e.g. ParseFile's reader goroutine, which calls
	// Close after ParseFile has returned
	deadline := time.Now().Add(3 * time.Second)
	for {
		n := runtime.NumGoroutine() - baseline
		if n <= 0 {
			return 0
		}
		if time.Now().After(deadline) {
			return n
		}
		time.Sleep(200 * time.Microsecond)
	}
}

func OutOfModel(what string) {}

// IsSym reports whether v has symbolic parts (always false natively).
func IsSym(v any) bool { return false }

// Conc forks over the values of x in the engine; identity natively.
func Conc(x int) int { return x }

func SchedTrace() int { return 0 }

// Render is the canonical rendering shared with the engine.
func Render(v any) string {
	var sb strings.Builder
	render(&sb, reflect.ValueOf(v), true)
	return sb.String()
}

func typeName(t reflect.Type) string { return t.String() }

func render(sb *strings.Builder, v reflect.Value, top bool) {
	if !v.IsValid() {
		sb.WriteString("nil")
		return
	}
	if top {
		// v is the dynamic value of an interface
		if v.CanInterface() {
			if e, ok := v.Interface().(error); ok {
				sb.WriteString("err(" + strconv.Quote(e.Error()) + ")")
				return
			}
		}
		sb.WriteString(typeName(v.Type()) + "(")
		render(sb, v, false)
		sb.WriteString(")")
		return
	}
	switch v.Kind() {
	case reflect.Bool:
		fmt.Fprintf(sb, "%v", v.Bool())
	case reflect.Int, reflect.Int8, reflect.Int16, reflect.Int32, reflect.Int64:
		fmt.Fprintf(sb, "%d", v.Int())
	case reflect.Uint, reflect.Uint8, reflect.Uint16, reflect.Uint32, reflect.Uint64, reflect.Uintptr:
		fmt.Fprintf(sb, "%d", v.Uint())
	case reflect.Float64, reflect.Float32:
		f := v.Float()
		if f != f {
			sb.WriteString("fNaN")
		} else {
			fmt.Fprintf(sb, "f%016x", math.Float64bits(f))
		}
	case reflect.String:
		sb.WriteString(strconv.Quote(v.String()))
	case reflect.Interface:
		if v.IsNil() {
			sb.WriteString("nil")
			return
		}
		render(sb, v.Elem(), true)
	case reflect.Slice, reflect.Array:
		if v.Type().Elem().Kind() == reflect.Uint8 && v.Kind() == reflect.Slice {
			sb.WriteString("b\"")
			for i := 0; i < v.Len(); i++ {
				fmt.Fprintf(sb, "%02x", v.Index(i).Uint())
			}
			sb.WriteString("\"")
			return
		}
		sb.WriteString("[")
		for i := 0; i < v.Len(); i++ {
			if i > 0 {
				sb.WriteString(" ")
			}
			render(sb, v.Index(i), false)
		}
		sb.WriteString("]")
	case reflect.Struct:
		sb.WriteString("{")
		for i := 0; i < v.NumField(); i++ {
			if i > 0 {
				sb.WriteString(" ")
			}
			render(sb, v.Field(i), false)
		}
		sb.WriteString("}")
	case reflect.Pointer:
		if v.IsNil() {
			sb.WriteString("nil")
			return
		}
		sb.WriteString("&")
		render(sb, v.Elem(), false)
	case reflect.Map:
		type kv struct{ k, v string }
		var kvs []kv
		it := v.MapRange()
		for it.Next() {
			var kb, vb strings.Builder
			render(&kb, it.Key(), false)
			render(&vb, it.Value(), false)
			kvs = append(kvs, kv{kb.String(), vb.String()})
		}
		sort.Slice(kvs, func(i, j int) bool { return kvs[i].k < kvs[j].k })
		sb.WriteString("map[")
		for i, e := range kvs {
			if i > 0 {
				sb.WriteString(" ")
			}
			sb.WriteString(e.k + ":" + e.v)
		}
		sb.WriteString("]")
	default:
		sb.WriteString("?")
	}
}

// Tier is 0 for the quick tier and 1 for the thorough tier.
func Tier() int { return tier }

var tier int

// SetTier is used by the native runner.
func SetTier(t int) { tier = t }

// GlobalWrites is the number of stores to package-level state of the library
// observed so far (always 0 natively; tracked by the engine).
func GlobalWrites() int { return 0 }

// RunCmd runs the bcl command-line tool with the given arguments, standard
// input and files (names relative to its working directory) and returns its
// exit status, standard output, standard error and the files present
// afterwards. Under the engine cmd/bcl's main is executed symbolically over
// an in-memory model of package os; natively the real binary (path in
// $VERIF_BCL_BIN) is run in a temporary directory.
func RunCmd(args []string, stdin string, names, contents []string) (status int, stdout, stderr string, outNames, outContents []string) {
	bin := os.Getenv("VERIF_BCL_BIN")
	if bin == "" {
		panic("verif.RunCmd: VERIF_BCL_BIN not set")
	}
	dir, err := os.MkdirTemp("", "bclcmd")
	if err != nil {
		panic(err)
	}
	defer os.RemoveAll(dir)
	for i, n := range names {
		if err := os.WriteFile(filepath.Join(dir, n), []byte(contents[i]), 0o644); err != nil {
			panic(err)
		}
	}
	cmd := exec.Command(bin, args...)
	cmd.Dir = dir
	cmd.Stdin = strings.NewReader(stdin)
	var so, se bytes.Buffer
	cmd.Stdout, cmd.Stderr = &so, &se
	err = cmd.Run()
	if err != nil {
		if ee, ok := err.(*exec.ExitError); ok {
			status = ee.ExitCode()
		} else {
			panic(err)
		}
	}
	ents, _ := os.ReadDir(dir)
	for _, e := range ents {
		b, _ := os.ReadFile(filepath.Join(dir, e.Name()))
		outNames = append(outNames, e.Name())
		outContents = append(outContents, string(b))
	}
	return status, so.String(), se.String(), outNames, outContents
}
