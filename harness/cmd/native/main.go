// Command native runs harness functions natively against the real compiled
// code, feeding them recorded inputs (a solver model), and reports what they
// observed. One JSON job per input line, one JSON result per output line.
package main

import (
	"bufio"
	"encoding/json"
	"fmt"
	"os"
	"runtime/debug"
	"time"

	"verifharness/verif"
)

type job struct {
	ID      int           `json:"id"`
	Harness string        `json:"harness"`
	Tier    int           `json:"tier"`
	Inputs  []verif.Input `json:"inputs"`
	Timeout int           `json:"timeout_ms"`
}

type result struct {
	ID       int         `json:"id"`
	Outcome  string      `json:"outcome"` // ok | panic | timeout | assume-false | mismatch | unknown-harness
	Detail   string      `json:"detail,omitempty"`
	Obs      []verif.Obs `json:"obs"`
	Records  []verif.Obs `json:"records"`
	Reached  []string    `json:"reached"`
	Failed   []string    `json:"failed"`
}

func runOne(j job) result {
	fn := registry[j.Harness]
	r := result{ID: j.ID}
	if fn == nil {
		r.Outcome = "unknown-harness"
		return r
	}
	verif.SetTier(j.Tier)
	st := verif.Begin(j.Inputs)
	done := make(chan struct{})
	go func() {
		defer close(done)
		defer func() {
			if p := recover(); p != nil {
				if _, ok := p.(verif.AssumeFailed); ok {
					if st.Mismatch != "" {
						r.Outcome, r.Detail = "mismatch", st.Mismatch
					} else {
						r.Outcome = "assume-false"
					}
					return
				}
				r.Outcome = "panic"
				r.Detail = fmt.Sprintf("%v\n%s", p, debug.Stack())
			}
		}()
		fn()
		r.Outcome = "ok"
	}()
	to := time.Duration(j.Timeout) * time.Millisecond
	if to == 0 {
		to = 10 * time.Second
	}
	select {
	case <-done:
	case <-time.After(to):
		r.Outcome = "timeout"
	}
	r.Obs, r.Records, r.Reached, r.Failed = st.Obs, st.Records, st.Reached, st.Failed
	return r
}

func main() {
	in := bufio.NewReaderSize(os.Stdin, 1<<20)
	// the protocol keeps the original standard output; anything the code under
	// test prints to os.Stdout (default writers of the library) goes to stderr
	proto := os.Stdout
	os.Stdout = os.Stderr
	out := bufio.NewWriter(proto)
	dec := json.NewDecoder(in)
	for {
		var j job
		if err := dec.Decode(&j); err != nil {
			break
		}
		r := runOne(j)
		b, _ := json.Marshal(r)
		out.Write(b)
		out.WriteByte('\n')
		out.Flush()
		if r.Outcome == "timeout" {
			// the stuck goroutine may hold state; start afresh
			os.Exit(3)
		}
	}
}
