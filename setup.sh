#!/bin/sh
# Builds the symbolic engine and driver from files on disk only (offline).
set -e
cd /verif/engine
export GOFLAGS=-mod=mod GOPROXY=off GOSUMDB=off GOTOOLCHAIN=local CGO_ENABLED=0
mkdir -p /verif/bin /verif/.work /verif/evidence
go build -o /verif/bin/vcheck ./cmd/vcheck
cp /repo/go.sum /verif/harness/go.sum 2>/dev/null || true
echo "setup ok"
