#!/bin/sh
# Builds the symbolic engine and driver from files on disk only (offline).
set -e
ROOT="$(cd "$(dirname "$0")" && pwd)"
cd "$ROOT/engine"
export GOFLAGS=-mod=mod GOPROXY=off GOSUMDB=off GOTOOLCHAIN=local CGO_ENABLED=0
mkdir -p "$ROOT/bin" "$ROOT/.work" "$ROOT/evidence"
go build -o "$ROOT/bin/vcheck" ./cmd/vcheck
cp /repo/go.sum "$ROOT/harness/go.sum" 2>/dev/null || true
echo "setup ok"
