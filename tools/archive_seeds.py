#!/usr/bin/env python3
"""Archives the seeded changes of one round (/tmp/seed<N>-Cxx written by sub-agents) under
/verif/seeded/r<N>-Cxx-k/ together with what was confirmed and which check run caught them.
usage: ROUND=2 archive_seeds.py <first-run results dir> [<later results dir> ...]"""
import glob, json, os, re, shutil, sys
ROUND = os.environ.get('ROUND', '2')

dirs = sys.argv[1:]
root = os.path.dirname(os.path.dirname(os.path.abspath(__file__)))

def load(d, seed):
    p = os.path.join(d, seed + '.json')
    if not os.path.exists(p):
        return None
    s = open(p).read()
    i = s.find('{')
    try:
        return json.loads(s[i:])
    except Exception:
        return {'raw': s[-400:]}

def detected(res):
    if not res or 'checks' not in res:
        return None
    for cid, c in res['checks'].items():
        if any(l.startswith('VIOLATION') for l in c.get('lines', [])) and c.get('exit') == 1:
            return cid
    return False

rows = []
for sd in sorted(glob.glob(f'/tmp/seed{ROUND}-C*')):
    prop = os.path.basename(sd).split('-')[1]
    for k in '123':
        patch = os.path.join(sd, f'patch{k}.diff')
        demo = os.path.join(sd, f'demo{k}_test.go')
        if not (os.path.exists(patch) and os.path.exists(demo)):
            continue
        seed = f'{prop}-{k}'
        runs = [load(d, seed) for d in dirs]
        first = runs[0]
        if not first or not first.get('confirmed'):
            continue
        out = os.path.join(root, 'seeded', f'r{ROUND}-{seed}')
        os.makedirs(out, exist_ok=True)
        shutil.copy(patch, os.path.join(out, 'patch.diff'))
        shutil.copy(demo, os.path.join(out, 'demo_test.go'))
        if os.path.exists(os.path.join(sd, 'notes.md')):
            shutil.copy(os.path.join(sd, 'notes.md'), os.path.join(out, 'notes.md'))
        files = sorted(set(re.findall(r'^\+\+\+ b/(\S+)', open(patch).read(), re.M)))
        det = [detected(r) for r in runs]
        lines = []
        for r in reversed(runs):
            if r and detected(r):
                c = r['checks'][detected(r)]
                lines = [l.replace('/tmp/verif-snap', '/verif') for l in c['lines'] if not l.startswith('RESULT')][:3]
                break
        meta = {
            'property': prop, 'seed': f'r{ROUND}-{seed}', 'files_changed': files,
            'origin': 'written by an independent sub-agent given only the property text and a scratch worktree of /repo (round ' + ROUND + ')',
            'confirmed_by_me': {
                'patch_applies': first.get('applies'),
                'suite_passes_with_change': first.get('suite_passes_with_change'),
                'demo_fails_with_change': first.get('demo_fails_with_change'),
                'demo_passes_without_change': first.get('demo_passes_without_change'),
                'how': 'tools/seedcheck.py in a fresh scratch worktree (/tmp/sv-*, removed afterwards): go build + go test -vet=off -count=1 ./... with the patch; demo as zz_seed_test.go with and without the patch',
            },
            'needs_to_manifest': 'see notes.md (agent description) and the demonstration',
            'check_run': f'scratch copy of /repo with patch.diff applied (VERIF_REPO), vcheck {prop} --tier quick; equivalently git -C /repo apply patch.diff; /verif/bin/vcheck {prop} --tier quick; git -C /repo checkout -- .',
            'detected_first_run': bool(det[0]),
            'detected_now': bool([d for d in det if d]),
            'report': lines,
        }
        json.dump(meta, open(os.path.join(out, 'meta.json'), 'w'), indent=1)
        rows.append((seed, files, det, lines))

for seed, files, det, lines in rows:
    what = ''
    if lines:
        m = re.search(r'^\s+(\S+?)[/:]', lines[1] if len(lines) > 1 else '')
        what = m.group(1) if m else ''
    print(f'| r{ROUND}-{seed} | {",".join(files)} | {"first run" if det[0] else ("after: " + what if any(det) else "MISSED")} |')
