#!/usr/bin/env python3
"""Archives round-5 seeded changes from /tmp/r5out/Cxx into /verif/seeded/r5-Cxx-k/."""
import json, os, re, shutil
first_miss = {  # seeds the checks missed on their first run -> harness added/extended that now reports them
 'C02-1':'C02_SlotSweep','C02-2':'C02_FieldChain','C02-3':'C02_Siblings','C01-2':'C01_LiteralOps / C01_SlotOperands',
 'C19-1':'C19_Observe (long-string programs)','C19-3':'C19_Limits','C14-1':'C14_Wide','C14-2':'C14_Wide','C14-3':'C14_Wide (minor version 0)',
 'C05-1':'C05_EmptyNested','C05-2':'C05_Reload','C17-1':'C17_Streamed','C17-2':'C17_Recovery (stray punctuation)',
 'C06-2':'C06_UnmarshalNames','C06-3':'C06_Limits (every push kind)','C03-3':'C03_Deep','C12-2':'C12_Pipeline (read faults, writers read on return)',
 'C12-3':'C12_SharedSliceBind','C08-2':'C08_TwoDiags','C08-3':'C08_WidePos','C11-1':'C11_DataWithEOF','C07-2':'C07_ManyZeroReads','C16-2':'C05_LocalTypes registered under C16',
}
rows=[]
for prop in sorted(os.listdir('/tmp/r5out')):
    d=f'/tmp/r5out/{prop}'
    if not os.path.isdir(d): continue
    for k in '123':
        patch,demo,res=f'{d}/patch{k}.diff',f'{d}/demo{k}_test.go',f'{d}/result{k}.json'
        if not all(os.path.exists(x) for x in (patch,demo,res)): continue
        try:
            s=open(res).read(); r=json.loads(s[s.find('{'):])
        except Exception: continue
        if not r.get('confirmed'): continue
        seed=f'{prop}-{k}'
        out=f'/verif/seeded/r5-{seed}'; os.makedirs(out,exist_ok=True)
        shutil.copy(patch,f'{out}/patch.diff'); shutil.copy(demo,f'{out}/demo_test.go')
        if os.path.exists(f'{d}/notes.md'): shutil.copy(f'{d}/notes.md',f'{out}/notes.md')
        c=r['checks'].get(prop,{})
        lines=[l.replace('/tmp/vsnap1','/verif') for l in c.get('lines',[]) if not l.startswith('RESULT')][:3]
        missed = seed in first_miss
        meta={'property':prop,'seed':f'r5-{seed}','files_changed':sorted(set(re.findall(r'^\+\+\+ b/(\S+)',open(patch).read(),re.M))),
         'origin':'written by an independent sub-agent given only the property text and a scratch worktree of /repo (round 5)',
         'confirmed_by_me':{k2:r.get(k2) for k2 in ('applies','suite_passes_with_change','demo_fails_with_change','demo_passes_without_change')},
         'how_confirmed':'tools/seedcheck.py in a fresh scratch worktree (/tmp/sv-*, removed afterwards): go build + go test -vet=off -count=1 ./... with the patch; demo as zz_seed_test.go with and without the patch',
         'needs_to_manifest':'see notes.md (agent description) and the demonstration',
         'check_run':f'scratch copy of /repo with patch.diff applied (VERIF_REPO), vcheck {prop} --tier quick; equivalently git -C /repo apply patch.diff; /verif/bin/vcheck {prop} --tier quick; git -C /repo checkout -- .',
         'detected_first_run': not missed,
         'detected_now': True,
         'caught_by': first_miss.get(seed) or (re.search(r'/(C\d\d_\w+?)-',lines[0]).group(1) if lines and re.search(r'/(C\d\d_\w+?)-',lines[0]) else ''),
         'report':lines if not missed else ['first run: RESULT held (missed); after strengthening: reported by '+first_miss[seed]]}
        json.dump(meta,open(f'{out}/meta.json','w'),indent=1)
        rows.append((seed,meta['files_changed'],meta['detected_first_run'],meta['caught_by']))
for r in rows: print('| r5-%s | %s | %s | %s |'%(r[0],', '.join(r[1]),'yes' if r[2] else 'no, yes after strengthening',r[3]))
print(len(rows),'archived;',sum(1 for r in rows if r[2]),'detected on first run')
