#!/bin/sh
# round 2: runs seedcheck for every delivered patch in /tmp/seed2-C*; results in /verif/.work/seedres2/
mkdir -p /verif/.work/seedres2
for d in /tmp/seed2-C*; do
  id=$(basename $d | sed 's/seed2-//')
  for p in $d/patch*.diff; do
    [ -f "$p" ] || continue
    k=$(basename $p | sed 's/patch//; s/.diff//')
    out=/verif/.work/seedres2/$id-$k.json
    [ -f "$out" ] && continue
    python3 ${VERIF_SNAP:-/verif}/tools/seedcheck.py $id $d $k > $out 2>&1
    echo "$id-$k done: $(grep -c VIOLATION $out) violation lines, confirmed=$(grep -c '"confirmed": true' $out)"
  done
done
