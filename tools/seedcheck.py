#!/usr/bin/env python3
"""Confirms a seeded change (compiles, passes the suite, demo fails with it and passes without)
in a scratch worktree, then runs the named checks with the change applied to /repo, and undoes it.
usage: seedcheck.py <property> <seeddir> <k> [extra check ids...]"""
import json, os, shutil, subprocess, sys, time
prop, seeddir, k = sys.argv[1], sys.argv[2], sys.argv[3]
extra = sys.argv[4:]
env = dict(os.environ, GOFLAGS='-mod=mod', GOPROXY='off', GOSUMDB='off')
def sh(cmd, cwd=None, timeout=1200):
    p = subprocess.run(cmd, shell=True, cwd=cwd, env=env, capture_output=True, text=True, timeout=timeout)
    return p.returncode, (p.stdout + p.stderr)
patch = os.path.join(seeddir, f'patch{k}.diff')
demo = os.path.join(seeddir, f'demo{k}_test.go')
out = {'property': prop, 'patch': patch, 'checks': {}}
if not (os.path.exists(patch) and os.path.exists(demo)):
    print('missing patch or demo'); sys.exit(2)
wt = f'/tmp/sv-{prop}-{k}'
sh(f'git -C /repo worktree remove --force {wt}')
rc, o = sh(f'git -C /repo worktree add --detach {wt} HEAD')
try:
    rc, o = sh(f'git apply {patch}', cwd=wt)
    out['applies'] = rc == 0
    if rc != 0:
        out['apply_output'] = o[-500:]
        raise SystemExit
    rc, o = sh('go build ./... && go test -vet=off -count=1 ./...', cwd=wt)
    out['suite_passes_with_change'] = rc == 0
    shutil.copy(demo, os.path.join(wt, 'zz_seed_test.go'))
    race = '-race' if prop == 'C12' else ''
    rc, o = sh(f'go test {race} -vet=off -count=1 -run "Seed|seed" . 2>&1 | tail -15', cwd=wt, timeout=600)
    fails_with = ('FAIL' in o) or ('DATA RACE' in o) or ('panic' in o)
    out['demo_fails_with_change'] = fails_with
    out['demo_output_with'] = o[-600:]
    sh(f'git apply -R {patch}', cwd=wt)
    rc, o = sh(f'go test {race} -vet=off -count=1 -run "Seed|seed" . 2>&1 | tail -5', cwd=wt, timeout=600)
    out['demo_passes_without_change'] = ('ok' in o) and ('FAIL' not in o)
finally:
    sh(f'git -C /repo worktree remove --force {wt}')
ok = out.get('applies') and out.get('suite_passes_with_change') and out.get('demo_fails_with_change') and out.get('demo_passes_without_change')
out['confirmed'] = bool(ok)
if ok:
    # run the checks against a scratch copy of /repo with the change applied
    # (VERIF_REPO), so /repo itself is never touched
    rc_dir = f'/tmp/rc-{prop}-{k}'
    sh(f'git -C /repo worktree remove --force {rc_dir}')
    sh(f'git -C /repo worktree add --detach {rc_dir} HEAD')
    try:
        rc, o = sh(f'git apply {patch}', cwd=rc_dir)
        env['VERIF_REPO'] = rc_dir
        for cid in [prop] + extra:
            t = time.time()
            snap = os.environ.get('VERIF_SNAP', '/verif')
            rc, o = sh(f'{snap}/bin/vcheck {cid} --tier quick', cwd=snap, timeout=3000)
            lines = [l for l in o.splitlines() if l.startswith(('VIOLATION', 'RESULT', 'INCONCLUSIVE', 'KNOWN', '  '))]
            out['checks'][cid] = {'exit': rc, 'wall_s': round(time.time() - t, 1), 'lines': lines[:8]}
    finally:
        env.pop('VERIF_REPO', None)
        sh(f'git -C /repo worktree remove --force {rc_dir}')
print(json.dumps(out, indent=1))
