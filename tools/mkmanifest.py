#!/usr/bin/env python3
"""Regenerates /verif/MANIFEST.json from tools/checks.json (claimed checks) and properties.jsonl."""
import json, sys
props = [json.loads(l) for l in open('/verif/properties.jsonl')]
checks = json.load(open('/verif/tools/checks.json'))
claimed = {c['property_id'] for c in checks['checks']}
na = checks.get('not_applicable', {})
out = {
 "version": 1,
 "setup_cmd": "cd /verif && ./setup.sh",
 "hooks": {
  "guard": "verif",
  "enable": "no source hooks are compiled in: the harness's in-package accessors (/verif/harness/overlay/*.go.txt) are injected as build overlays (packages.Config.Overlay for the engine, go build -overlay for the native replay binary)",
  "baseline_off_cmd": "cd /repo && go test -vet=off -count=1 ./...",
  "source_commits": [],
  "add_only": True
 },
 "engines": [{
  "name": "symgo", "path": "/verif/engine",
  "serves_properties": sorted(claimed),
  "kind_free_text": "bounded symbolic executor for Go: fork of golang.org/x/tools/go/ssa/interp (v0.29.0) over the go/ssa form of /repo rebuilt on every run; bit-vector/floating-point terms decided by z3 5.1.0 (z3-new -in, fallback 4.8.12) over a pipe, a log-spaced sample of the unsat verdicts re-decided by z3 4.8.12 one-shot; re-execution based path exploration on 16 worker processes; candidate violations replayed natively before being reported"
 }],
 "checks": [],
 "not_applicable": [],
 "notes": checks.get('notes', '')
}
for c in checks['checks']:
    pid = c['property_id']
    out['checks'].append({
     "property_id": pid,
     "quick_cmd": f"/verif/bin/vcheck {pid} --tier quick",
     "thorough_cmd": f"/verif/bin/vcheck {pid} --tier thorough",
     "evidence_file": f"/verif/evidence/{pid}.json",
     "replay_cmd_template": "/verif/bin/vcheck replay {path}",
     "engine": "symgo",
     "level_claimed": {"category": "model_checking", "text": c['text'], "design_ref": c.get('design_ref', 'DESIGN.md §4 ' + pid)},
     "level_note": c['note'],
     "technique": c.get('technique', 'bounded symbolic execution of go/ssa + SMT (z3): every path of the harness within the stated bounds, obligations discharged by the solver (sampled unsat verdicts cross-checked on a second solver build), counterexamples replayed natively')
    })
for p in props:
    if p['id'] not in claimed:
        out['not_applicable'].append({"property_id": p['id'], "reason": na.get(p['id'], "check not built yet (work in progress); see DESIGN.md")})
json.dump(out, open('/verif/MANIFEST.json', 'w'), indent=1)
print("manifest written:", len(out['checks']), "checks,", len(out['not_applicable']), "not applicable")
