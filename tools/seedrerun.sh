#!/bin/sh
# re-runs the property's check for the given seeds (already confirmed), e.g. seedrerun.sh C02-2 C03-1
for s in "$@"; do
  id=${s%-*}
  git -C /repo apply /verif/seeded/$s/patch.diff || { echo "$s: patch does not apply"; continue; }
  out=$(/verif/bin/vcheck $id --tier quick 2>&1 | grep "^VIOLATION\|^RESULT\|^INCONCLUSIVE" | head -4 | cut -c1-220)
  git -C /repo checkout -- .
  echo "== $s"; echo "$out"
done
