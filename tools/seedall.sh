#!/bin/sh
# runs seedcheck for every delivered patch; results in /verif/.work/seedres/
mkdir -p /verif/.work/seedres
for d in /tmp/seed-C*; do
  id=$(basename $d | sed 's/seed-//')
  for p in $d/patch*.diff; do
    [ -f "$p" ] || continue
    k=$(basename $p | sed 's/patch//; s/.diff//')
    out=/verif/.work/seedres/$id-$k.json
    [ -f "$out" ] && continue
    python3 /verif/tools/seedcheck.py $id $d $k > $out 2>&1
    echo "$id-$k done: $(grep -c VIOLATION $out) violation lines"
  done
done
